package props

import (
	"fmt"
	"go/ast"
	"go/token"
	"go/types"
	"sort"
	"strings"

	"goblcheck/core"
)

func init() { register("C02", C02) }

// boolFn interprets a small boolean function (if / return over nil tests,
// ==, != and Equals calls) over an assignment of its atoms.
type boolFn struct {
	info *types.Info
	// atom classifies a leaf expression: ("nil", path) for X == nil tests is
	// handled structurally; eqAtom names an equality between two paths.
	pathOf func(ast.Expr) string // "" if not a tracked path
	nilOf  map[string]bool       // path -> is nil
	eqOf   map[string]bool       // "pathA~pathB" (sorted) -> equal
	atoms  map[string]bool       // discovered equality atoms
	nils   map[string]bool       // discovered nil-tested paths
	bad    string                // dereference of a nil path
	why    string
}

func eqKey(a, b string) string {
	if a > b {
		a, b = b, a
	}
	return a + "~" + b
}

func (f *boolFn) eval(e ast.Expr) (bool, bool) {
	e = ast.Unparen(e)
	if tv, ok := f.info.Types[e]; ok && tv.Value != nil {
		return tv.Value.String() == "true", true
	}
	switch x := e.(type) {
	case *ast.Ident:
		if x.Name == "true" {
			return true, true
		}
		if x.Name == "false" {
			return false, true
		}
	case *ast.UnaryExpr:
		if x.Op == token.NOT {
			v, ok := f.eval(x.X)
			return !v, ok
		}
	case *ast.BinaryExpr:
		switch x.Op {
		case token.LAND:
			a, ok := f.eval(x.X)
			if !ok {
				return false, false
			}
			if !a {
				return false, true
			}
			return f.eval(x.Y)
		case token.LOR:
			a, ok := f.eval(x.X)
			if !ok {
				return false, false
			}
			if a {
				return true, true
			}
			return f.eval(x.Y)
		case token.EQL, token.NEQ:
			l, r := ast.Unparen(x.X), ast.Unparen(x.Y)
			if core.IsNil(f.info, l) {
				l, r = r, l
			}
			if core.IsNil(f.info, r) {
				p := f.pathOf(l)
				if p == "" {
					f.why = "nil test of an untracked expression " + types.ExprString(l)
					return false, false
				}
				f.nils[p] = true
				return f.nilOf[p] == (x.Op == token.EQL), true
			}
			pa, pb := f.pathOf(l), f.pathOf(r)
			if pa == "" || pb == "" {
				f.why = "comparison of untracked expressions " + types.ExprString(x)
				return false, false
			}
			f.derefCheck(pa)
			f.derefCheck(pb)
			k := eqKey(pa, pb)
			f.atoms[k] = true
			return f.eqOf[k] == (x.Op == token.EQL), true
		}
	case *ast.CallExpr:
		// X.Equals(Y)
		if se, ok := x.Fun.(*ast.SelectorExpr); ok && se.Sel.Name == "Equals" && len(x.Args) == 1 {
			pa, pb := f.pathOf(se.X), f.pathOf(x.Args[0])
			if pa == "" || pb == "" {
				f.why = "Equals between untracked expressions " + types.ExprString(x)
				return false, false
			}
			f.derefCheck(pa)
			f.derefCheck(pb)
			k := eqKey(pa, pb)
			f.atoms[k] = true
			return f.eqOf[k], true
		}
	}
	f.why = "no model for " + types.ExprString(e)
	return false, false
}

// derefCheck: using a path below a nil pointer is a nil dereference.
func (f *boolFn) derefCheck(p string) {
	for np, isNil := range f.nilOf {
		if isNil && (p == np+".*" || strings.HasPrefix(p, np+".")) {
			f.bad = p + " used while " + np + " is nil"
		}
	}
}

// run interprets a statement list; returns (result, returned, decided).
func (f *boolFn) run(list []ast.Stmt) (bool, bool, bool) {
	for _, s := range list {
		switch st := s.(type) {
		case *ast.IfStmt:
			c, ok := f.eval(st.Cond)
			if !ok {
				return false, false, false
			}
			if c {
				r, ret, ok := f.run(st.Body.List)
				if !ok {
					return false, false, false
				}
				if ret {
					return r, true, true
				}
			} else if st.Else != nil {
				var l []ast.Stmt
				if b, isB := st.Else.(*ast.BlockStmt); isB {
					l = b.List
				} else {
					l = []ast.Stmt{st.Else}
				}
				r, ret, ok := f.run(l)
				if !ok {
					return false, false, false
				}
				if ret {
					return r, true, true
				}
			}
		case *ast.ReturnStmt:
			if len(st.Results) != 1 {
				f.why = "return without a single result"
				return false, false, false
			}
			v, ok := f.eval(st.Results[0])
			return v, true, ok
		default:
			f.why = fmt.Sprintf("statement %T has no model", s)
			return false, false, false
		}
	}
	return false, false, true
}

// C02 — tax summary partitions taxable amounts and sums them correctly.
func C02(c *core.Ctx) {
	c.Explain("Decided: (R1) the group identity of a rate row — both matching functions (row vs combo, row vs row) are interpreted as boolean functions over every combination of nil/non-nil percent and surcharge and equal/unequal country, extensions, percent and surcharge, and must equal the specified identity: extensions and country equal, and either both exempt, or both with equal percent and (both without surcharge or both with equal surcharge); no combination dereferences a nil; a new row copies exactly those fields from the combo; (R2) retained categories are subtracted and ordinary ones added, surcharges included, the two branches being mirror images; (R3) the base, category, surcharge and total accumulators raise their precision to each addend (shared with C01-R1); (R4) the included tax is taken out of every line that has that category with a percentage, with the percentage of that very combo. Not decided: the numeric identities (amount = percent of base, sums).")
	c.Rule("C02-R1", "rate-group matching equals the specified identity on every nil/equality combination", 3)
	c.Rule("C02-R2", "retained branch mirrors the ordinary branch with Subtract", 1)
	c.Rule("C02-R3", "tax accumulators raise precision to each addend", 3)
	c.Rule("C02-R4", "included tax removed from every line with its own percentage", 2)
	c02Matching(c)
	c02Retained(c)
	accumulatorRule(c, "C02-R3", []string{"tax"})
	rowSeedRule(c, "C02-R3")
	c02Included(c)
	c.Rule("C02-R5", "each group's amount (and surcharge) is Percent.Of(the group's stored Base)", 2)
	rateAmountFromBase(c, "C02-R5")
}

func c02Matching(c *core.Ctx) {
	p := c.P
	rtNamed := p.Named("tax", "RateTotal")
	if rtNamed == nil {
		c.Ob("C02-R1", "UNRESOLVED:tax.RateTotal", token.NoPos, false, "type not found")
		return
	}
	n := 0
	for _, fd := range p.Funcs(p.Pkg("tax")) {
		sig := fd.Obj.Type().(*types.Signature)
		if core.RecvNamed(fd.Obj) != rtNamed || sig.Params().Len() != 1 || sig.Results().Len() != 1 || core.TypeString(sig.Results().At(0).Type()) != "bool" {
			continue
		}
		pt := core.TypeString(sig.Params().At(0).Type())
		if pt != "*tax.Combo" && pt != "*tax.RateTotal" {
			continue
		}
		n++
		info := fd.Pkg.TypesInfo
		recv, arg := sig.Recv(), sig.Params().At(0)
		// canonical paths: row side "R.<field>", other side "O.<field>"; the combo's surcharge is the row's Surcharge.Percent
		pathOf := func(e ast.Expr) string {
			e = ast.Unparen(e)
			deref := false
			if st, ok := e.(*ast.StarExpr); ok {
				e = ast.Unparen(st.X)
				deref = true
			}
			root, path := core.FieldPath(info, e)
			if root == nil || path == "" {
				return ""
			}
			side := ""
			switch root {
			case recv:
				side = "R"
			case arg:
				side = "O"
			default:
				return ""
			}
			// normalise: RateTotal.Surcharge.Percent ≙ Combo.Surcharge (value)
			if path == "Surcharge.Percent" {
				return side + ".Surcharge.*"
			}
			if deref || (path == "Percent" && false) {
				return side + "." + path + ".*"
			}
			return side + "." + path
		}
		// discover atoms with one dry run over all-non-nil/all-equal
		probe := &boolFn{info: info, pathOf: pathOf, nilOf: map[string]bool{}, eqOf: map[string]bool{}, atoms: map[string]bool{}, nils: map[string]bool{}}
		// collect atoms statically: walk all expressions
		ast.Inspect(fd.Decl.Body, func(m ast.Node) bool {
			if e, ok := m.(ast.Expr); ok {
				switch x := ast.Unparen(e).(type) {
				case *ast.BinaryExpr:
					if x.Op == token.EQL || x.Op == token.NEQ {
						l, r := ast.Unparen(x.X), ast.Unparen(x.Y)
						if core.IsNil(info, l) {
							l, r = r, l
						}
						if core.IsNil(info, r) {
							if pp := pathOf(l); pp != "" {
								probe.nils[pp] = true
							}
						} else if pa, pb := pathOf(l), pathOf(r); pa != "" && pb != "" {
							probe.atoms[eqKey(pa, pb)] = true
						}
					}
				case *ast.CallExpr:
					if se, ok := x.Fun.(*ast.SelectorExpr); ok && se.Sel.Name == "Equals" && len(x.Args) == 1 {
						if pa, pb := pathOf(se.X), pathOf(x.Args[0]); pa != "" && pb != "" {
							probe.atoms[eqKey(pa, pb)] = true
						}
					}
				}
			}
			return true
		})
		// Percent.Equals(*x.Percent): receiver pointer auto-deref → path "R.Percent" vs "O.Percent.*": normalise keys
		norm := func(k string) string { return strings.ReplaceAll(k, ".*", "") }
		want := map[string]string{ // normalised atom -> role
			eqKey("R.Ext", "O.Ext"):             "ext",
			eqKey("R.Country", "O.Country"):     "country",
			eqKey("R.Percent", "O.Percent"):     "percent",
			eqKey("R.Surcharge", "O.Surcharge"): "surcharge",
		}
		role := map[string]string{}
		var atomList []string
		missing := map[string]bool{"ext": true, "country": true, "percent": true, "surcharge": true}
		for a := range probe.atoms {
			r, ok := want[norm(a)]
			if !ok {
				c.Undecided("C02-R1", fd.Name()+"#atom:"+a, fd.Decl.Pos(), "comparison between fields that the group identity does not pair")
				continue
			}
			role[a] = r
			delete(missing, r)
			atomList = append(atomList, a)
		}
		sort.Strings(atomList)
		if len(missing) > 0 {
			var ms []string
			for m := range missing {
				ms = append(ms, m)
			}
			sort.Strings(ms)
			c.Ob("C02-R1", fd.Name()+"#compares-all", fd.Decl.Pos(), false, "the group identity does not compare: "+strings.Join(ms, ", ")+" — rows that differ only in it are merged")
			continue
		}
		nilPaths := []string{"R.Percent", "O.Percent", "R.Surcharge", "O.Surcharge"}
		rows, badRows := 0, 0
		firstBad := ""
		for mask := 0; mask < 16; mask++ {
			for eq := 0; eq < 1<<len(atomList); eq++ {
				f := &boolFn{info: info, pathOf: pathOf, nilOf: map[string]bool{}, eqOf: map[string]bool{}, atoms: map[string]bool{}, nils: map[string]bool{}}
				for i, np := range nilPaths {
					f.nilOf[np] = mask&(1<<i) != 0
				}
				eqRole := map[string]bool{}
				for i, a := range atomList {
					f.eqOf[a] = eq&(1<<i) != 0
					eqRole[role[a]] = f.eqOf[a]
				}
				// infeasible rows: equality atoms of nil pointers are irrelevant; skip duplicates by forcing them true
				if (f.nilOf["R.Percent"] || f.nilOf["O.Percent"]) && !eqRole["percent"] {
					continue
				}
				if (f.nilOf["R.Surcharge"] || f.nilOf["O.Surcharge"]) && !eqRole["surcharge"] {
					continue
				}
				got, returned, ok := f.run(fd.Decl.Body.List)
				if !ok || !returned {
					c.Undecided("C02-R1", fd.Name()+"#interpretation", fd.Decl.Pos(), "cannot interpret the function: "+f.why)
					rows = -1
					break
				}
				rows++
				rp, op, rs, os := f.nilOf["R.Percent"], f.nilOf["O.Percent"], f.nilOf["R.Surcharge"], f.nilOf["O.Surcharge"]
				spec := eqRole["ext"] && eqRole["country"] && ((rp && op) || (!rp && !op && eqRole["percent"] && ((rs && os) || (!rs && !os && eqRole["surcharge"]))))
				if got != spec || f.bad != "" {
					badRows++
					if firstBad == "" {
						firstBad = fmt.Sprintf("row percent nil=%v/%v surcharge nil=%v/%v ext=%v country=%v percent=%v surcharge=%v: function says %v, identity says %v %s", rp, op, rs, os, eqRole["ext"], eqRole["country"], eqRole["percent"], eqRole["surcharge"], got, spec, f.bad)
					}
				}
			}
			if rows < 0 {
				break
			}
		}
		if rows >= 0 {
			c.Ob("C02-R1", fd.Name()+"#truth-table", fd.Decl.Pos(), badRows == 0,
				fmt.Sprintf("%d of %d combinations differ from the specified group identity; e.g. %s", badRows, rows, firstBad))
			c.Extra("truth_table_rows:"+fd.Name(), rows)
		}
	}
	if n < 2 {
		c.Ob("C02-R1", "UNRESOLVED:matching-functions", token.NoPos, false, fmt.Sprintf("only %d matching functions on tax.RateTotal found", n))
	}
	// a new row copies the identity fields from the combo
	if fd := p.Func("tax", "", "newRateTotal"); fd != nil {
		info := fd.Pkg.TypesInfo
		combo := fd.Obj.Type().(*types.Signature).Params().At(0)
		copied := map[string]bool{}
		ast.Inspect(fd.Decl.Body, func(m ast.Node) bool {
			switch x := m.(type) {
			case *ast.AssignStmt:
				for i, l := range x.Lhs {
					if f := core.FieldOf(info, l); f != nil && i < len(x.Rhs) {
						ast.Inspect(x.Rhs[i], func(k ast.Node) bool {
							if se, ok := k.(*ast.SelectorExpr); ok && core.RootVar(info, se) == combo {
								if cf := core.FieldOf(info, se); cf != nil {
									copied[f.Name()+"←"+cf.Name()] = true
								}
							}
							return true
						})
						// pc := *c.Percent; rt.Percent = &pc
						if u, ok := ast.Unparen(x.Rhs[i]).(*ast.UnaryExpr); ok && u.Op == token.AND {
							ld := core.NewLocalDefs(info, fd.Decl.Body)
							src := ld.Resolve(u.X, 2)
							ast.Inspect(src, func(k ast.Node) bool {
								if se, ok := k.(*ast.SelectorExpr); ok && core.RootVar(info, se) == combo {
									if cf := core.FieldOf(info, se); cf != nil {
										copied[f.Name()+"←"+cf.Name()] = true
									}
								}
								return true
							})
						}
					}
				}
			case *ast.KeyValueExpr:
				if id, ok := x.Key.(*ast.Ident); ok {
					ast.Inspect(x.Value, func(k ast.Node) bool {
						if se, ok := k.(*ast.SelectorExpr); ok && core.RootVar(info, se) == combo {
							if cf := core.FieldOf(info, se); cf != nil {
								copied[id.Name+"←"+cf.Name()] = true
							}
						}
						return true
					})
				}
			}
			return true
		})
		var miss []string
		for _, w := range []string{"Country←Country", "Ext←Ext", "Percent←Percent", "Percent←Surcharge"} {
			if !copied[w] {
				miss = append(miss, w)
			}
		}
		c.Ob("C02-R1", fd.Name()+"#copies-identity", fd.Decl.Pos(), len(miss) == 0, "a new rate row does not take from the combo: "+strings.Join(miss, ", "))
	} else {
		c.Ob("C02-R1", "UNRESOLVED:tax.newRateTotal", token.NoPos, false, "function not found")
	}
}

func c02Retained(c *core.Ctx) {
	p := c.P
	found := false
	for _, fd := range p.Funcs(p.Pkg("tax")) {
		info := fd.Pkg.TypesInfo
		var ff *core.FuncFlow
		ast.Inspect(fd.Decl.Body, func(n ast.Node) bool {
			rs, ok := n.(*ast.RangeStmt)
			if !ok || rs.Value == nil {
				return true
			}
			cat := core.VarOf(info, rs.Value)
			if cat == nil {
				return true
			}
			if nn, _ := core.StructOf(cat.Type()); nn == nil || nn.Obj().Name() != "CategoryTotal" {
				return true
			}
			// accumulations into the summary's Sum inside this loop
			type acc struct {
				as     *ast.AssignStmt
				op     string // Add / Subtract / "" for a function value
				fnVar  *types.Var
				addend string
			}
			var accs []acc
			ast.Inspect(rs.Body, func(m ast.Node) bool {
				as, ok := m.(*ast.AssignStmt)
				if !ok || len(as.Lhs) != 1 || len(as.Rhs) != 1 {
					return true
				}
				f := core.FieldOf(info, as.Lhs[0])
				if f == nil || f.Name() != "Sum" {
					return true
				}
				call, ok := ast.Unparen(as.Rhs[0]).(*ast.CallExpr)
				if !ok {
					return true
				}
				if fn := core.Callee(info, call); isAmountMethod(fn, "Add", "Subtract") && len(call.Args) == 1 && sameLoc(info, as.Lhs[0], core.RecvExpr(call)) {
					accs = append(accs, acc{as, fn.Name(), nil, types.ExprString(call.Args[0])})
					return true
				}
				if v := core.VarOf(info, call.Fun); v != nil && len(call.Args) == 2 && sameLoc(info, as.Lhs[0], call.Args[0]) {
					if _, isSig := v.Type().Underlying().(*types.Signature); isSig {
						accs = append(accs, acc{as, "", v, types.ExprString(call.Args[1])})
					}
				}
				return true
			})
			if len(accs) == 0 {
				return true
			}
			found = true
			if ff == nil {
				ff = core.NewFuncFlow(fd)
			}
			retainedAt := func(n ast.Node) (val, known bool) {
				node := ff.Flow.EnclosingNode(n)
				if node == nil {
					return false, false
				}
				for l, v := range ff.Flow.CondsAt(node) {
					if f := core.FieldOf(info, l); f != nil && f.Name() == "Retained" && core.RootVar(info, l) == cat {
						return v, true
					}
				}
				return false, false
			}
			okAll, why := true, ""
			retained, ordinary := map[string]int{}, map[string]int{}
			for _, a := range accs {
				if a.fnVar == nil {
					val, known := retainedAt(a.as)
					switch {
					case !known:
						okAll, why = false, fmt.Sprintf("%s at %s is not conditioned on the category's Retained flag", a.op, p.Rel(a.as.Pos()))
					case val && a.op != "Subtract":
						okAll, why = false, fmt.Sprintf("a retained category's %s is added at %s", a.addend, p.Rel(a.as.Pos()))
					case !val && a.op != "Add":
						okAll, why = false, fmt.Sprintf("an ordinary category's %s is subtracted at %s", a.addend, p.Rel(a.as.Pos()))
					}
					if val {
						retained[a.addend]++
					} else {
						ordinary[a.addend]++
					}
					continue
				}
				// the operation is a function value: every definition is Amount.Add / Amount.Subtract,
				// Subtract only under Retained, and the variable is reset in every iteration
				// before the accumulation (a choice made for one category must not carry over)
				ld := core.NewLocalDefs(info, fd.Decl.Body)
				reset := false
				for _, d := range ld.All(a.fnVar) {
					name := ""
					if d.RHS != nil {
						if se, ok := ast.Unparen(d.RHS).(*ast.SelectorExpr); ok {
							if fn, _ := info.Uses[se.Sel].(*types.Func); isAmountMethod(fn, "Add", "Subtract") {
								name = fn.Name()
							}
						}
					}
					in := d.Stmt != nil && rs.Body.Pos() <= d.Stmt.Pos() && d.Stmt.End() <= rs.Body.End()
					switch name {
					case "":
						okAll, why = false, fmt.Sprintf("the operation applied at %s is a function value that is not always Amount.Add or Amount.Subtract", p.Rel(a.as.Pos()))
					case "Subtract":
						if val, known := retainedAt(d.Stmt); !in || !known || !val {
							okAll, why = false, "Amount.Subtract is chosen where the category is not known to be retained"
						}
					case "Add":
						if in && d.Stmt.Pos() < a.as.Pos() {
							for _, st := range rs.Body.List {
								if st == d.Stmt {
									reset = true
								}
							}
						}
					}
				}
				if okAll && !reset {
					okAll, why = false, fmt.Sprintf("the operation variable `%s` is not reset to Amount.Add at the start of each iteration: once a retained category has been seen, every later category is subtracted as well", a.fnVar.Name())
				}
			}
			if okAll {
				for k, v := range retained {
					if ordinary[k] != v {
						okAll, why = false, fmt.Sprintf("%s is subtracted for retained categories but not added for ordinary ones (or vice versa)", k)
					}
				}
				for k, v := range ordinary {
					if retained[k] != v {
						okAll, why = false, fmt.Sprintf("%s is added for ordinary categories but not subtracted for retained ones", k)
					}
				}
			}
			c.Ob("C02-R2", fd.Name()+"#retained-mirror", rs.Pos(), okAll, "the tax total does not add ordinary categories and subtract retained ones symmetrically (same amounts, surcharges included): "+why)
			return true
		})
	}
	if !found {
		c.Ob("C02-R2", "UNRESOLVED:retained-branch", token.NoPos, false, "no loop over the categories that accumulates into the summary's Sum found in package tax")
	}
}

func c02Included(c *core.Ctx) {
	p := c.P
	n := 0
	for _, fd := range p.Funcs(p.Pkg("tax")) {
		info := fd.Pkg.TypesInfo
		for _, call := range core.CallsTo(info, fd.Decl.Body, func(f *types.Func) bool { return isAmountMethod(f, "Remove") }) {
			n++
			key := fmt.Sprintf("%s#Remove%d", fd.Name(), n)
			// argument: *c.Percent with c := <set>.Get(<includes>)
			arg := ast.Unparen(call.Args[0])
			if st, ok := arg.(*ast.StarExpr); ok {
				arg = ast.Unparen(st.X)
			}
			f := core.FieldOf(info, arg)
			cv := core.RootVar(info, arg)
			okOwn := false
			if f != nil && f.Name() == "Percent" && cv != nil {
				ld := core.NewLocalDefs(info, fd.Decl.Body)
				if d, ok := ld.Before(cv, call.Pos()); ok && d.RHS != nil {
					if gc, ok := ast.Unparen(d.RHS).(*ast.CallExpr); ok {
						if gf := core.Callee(info, gc); gf != nil && gf.Name() == "Get" && len(gc.Args) == 1 {
							if af := core.FieldOf(info, gc.Args[0]); af != nil && af.Name() == "Includes" {
								okOwn = true
							}
						}
					}
				}
			}
			c.Ob("C02-R4", key+"#own-percentage", call.Pos(), okOwn, "the included tax is not removed with the percentage of the line's own combo of the included category")
			// every line
			var stmt ast.Node = call
			ast.Inspect(fd.Decl.Body, func(m ast.Node) bool {
				if as, ok := m.(*ast.AssignStmt); ok && as.Pos() <= call.Pos() && call.End() <= as.End() {
					stmt = as
				}
				return true
			})
			why := everyIteration(p, info, fd.Decl.Body, stmt, func(cond ast.Expr, then bool) bool {
				// presence of the combo / of its percentage, and the retained-category error
				if nilTestOfOperands(info, stmt)(cond, then) {
					return true
				}
				// `c := set.Get(x); c != nil`
				if be, ok := ast.Unparen(cond).(*ast.BinaryExpr); ok && (be.Op == token.NEQ || be.Op == token.EQL) && (core.IsNil(info, be.X) || core.IsNil(info, be.Y)) {
					x := be.X
					if core.IsNil(info, x) {
						x = be.Y
					}
					if v := core.VarOf(info, x); v != nil && v == cv {
						return true
					}
					if se, ok := ast.Unparen(x).(*ast.SelectorExpr); ok && core.RootVar(info, se) == cv {
						if ff := core.FieldOf(info, se); ff != nil && ff.Name() == "Percent" {
							return true
						}
					}
				}
				return false
			})
			c.Ob("C02-R4", key+"#every-line", call.Pos(), why == "", "the included tax is not taken out of every line that has the category with a percentage: "+why)
		}
	}
	if n == 0 {
		c.Ob("C02-R4", "UNRESOLVED:Remove", token.NoPos, false, "no Amount.Remove call in package tax")
	}
}
