package props

import (
	"fmt"
	"go/ast"
	"go/token"
	"go/types"
	"sort"
	"strings"

	"goblcheck/core"
)

func init() { register("C02", C02) }

// boolFn interprets a small boolean function (if / return over nil tests,
// ==, != and Equals calls) over an assignment of its atoms.
type boolFn struct {
	info *types.Info
	// atom classifies a leaf expression: ("nil", path) for X == nil tests is
	// handled structurally; eqAtom names an equality between two paths.
	pathOf func(ast.Expr) string // "" if not a tracked path
	nilOf  map[string]bool       // path -> is nil
	eqOf   map[string]bool       // "pathA~pathB" (sorted) -> equal
	atoms  map[string]bool       // discovered equality atoms
	nils   map[string]bool       // discovered nil-tested paths
	bad    string                // dereference of a nil path
	why    string
	// constOf: "path=constant" -> the path holds that constant (comparisons of a
	// member with a constant: a wildcard such as `country == ""`)
	constOf map[string]bool
	// locals: boolean locals of the function (`var ok bool`, `ok = a == nil`)
	locals map[*types.Var]bool
}

// constKey names the comparison of a tracked path with a constant.
func (f *boolFn) constKey(l, r ast.Expr) string {
	if tv, ok := f.info.Types[r]; ok && tv.Value != nil {
		if p := f.pathOf(l); p != "" {
			return p + "=" + tv.Value.ExactString()
		}
	}
	if tv, ok := f.info.Types[l]; ok && tv.Value != nil {
		if p := f.pathOf(r); p != "" {
			return p + "=" + tv.Value.ExactString()
		}
	}
	return ""
}

func eqKey(a, b string) string {
	if a > b {
		a, b = b, a
	}
	return a + "~" + b
}

func (f *boolFn) eval(e ast.Expr) (bool, bool) {
	e = ast.Unparen(e)
	if tv, ok := f.info.Types[e]; ok && tv.Value != nil {
		return tv.Value.String() == "true", true
	}
	switch x := e.(type) {
	case *ast.Ident:
		if x.Name == "true" {
			return true, true
		}
		if x.Name == "false" {
			return false, true
		}
		if v, ok := f.info.Uses[x].(*types.Var); ok {
			if val, has := f.locals[v]; has {
				return val, true
			}
		}
	case *ast.UnaryExpr:
		if x.Op == token.NOT {
			v, ok := f.eval(x.X)
			return !v, ok
		}
	case *ast.BinaryExpr:
		switch x.Op {
		case token.LAND:
			a, ok := f.eval(x.X)
			if !ok {
				return false, false
			}
			if !a {
				return false, true
			}
			return f.eval(x.Y)
		case token.LOR:
			a, ok := f.eval(x.X)
			if !ok {
				return false, false
			}
			if a {
				return true, true
			}
			return f.eval(x.Y)
		case token.EQL, token.NEQ:
			l, r := ast.Unparen(x.X), ast.Unparen(x.Y)
			if core.IsNil(f.info, l) {
				l, r = r, l
			}
			if core.IsNil(f.info, r) {
				p := f.pathOf(l)
				if p == "" {
					f.why = "nil test of an untracked expression " + types.ExprString(l)
					return false, false
				}
				f.nils[p] = true
				return f.nilOf[p] == (x.Op == token.EQL), true
			}
			if ck := f.constKey(l, r); ck != "" && f.constOf != nil {
				if v, has := f.constOf[ck]; has {
					return v == (x.Op == token.EQL), true
				}
			}
			pa, pb := f.pathOf(l), f.pathOf(r)
			if pa == "" || pb == "" {
				f.why = "comparison of untracked expressions " + types.ExprString(x)
				return false, false
			}
			f.derefCheck(pa)
			f.derefCheck(pb)
			k := eqKey(pa, pb)
			f.atoms[k] = true
			return f.eqOf[k] == (x.Op == token.EQL), true
		}
	case *ast.CallExpr:
		// X.Equals(Y)
		if se, ok := x.Fun.(*ast.SelectorExpr); ok && se.Sel.Name == "Equals" && len(x.Args) == 1 {
			pa, pb := f.pathOf(se.X), f.pathOf(x.Args[0])
			if pa == "" || pb == "" {
				f.why = "Equals between untracked expressions " + types.ExprString(x)
				return false, false
			}
			f.derefCheck(pa)
			f.derefCheck(pb)
			k := eqKey(pa, pb)
			f.atoms[k] = true
			return f.eqOf[k], true
		}
	}
	f.why = "no model for " + types.ExprString(e)
	return false, false
}

// derefCheck: using a path below a nil pointer is a nil dereference.
func (f *boolFn) derefCheck(p string) {
	for np, isNil := range f.nilOf {
		if isNil && (p == np+".*" || strings.HasPrefix(p, np+".")) {
			f.bad = p + " used while " + np + " is nil"
		}
	}
}

// run interprets a statement list; returns (result, returned, decided).
func (f *boolFn) run(list []ast.Stmt) (bool, bool, bool) {
	for _, s := range list {
		switch st := s.(type) {
		case *ast.IfStmt:
			c, ok := f.eval(st.Cond)
			if !ok {
				return false, false, false
			}
			if c {
				r, ret, ok := f.run(st.Body.List)
				if !ok {
					return false, false, false
				}
				if ret {
					return r, true, true
				}
			} else if st.Else != nil {
				var l []ast.Stmt
				if b, isB := st.Else.(*ast.BlockStmt); isB {
					l = b.List
				} else {
					l = []ast.Stmt{st.Else}
				}
				r, ret, ok := f.run(l)
				if !ok {
					return false, false, false
				}
				if ret {
					return r, true, true
				}
			}
		case *ast.ReturnStmt:
			if len(st.Results) != 1 {
				f.why = "return without a single result"
				return false, false, false
			}
			v, ok := f.eval(st.Results[0])
			return v, true, ok
		case *ast.DeclStmt:
			// var ok bool
			gd, _ := st.Decl.(*ast.GenDecl)
			if gd == nil {
				f.why = "declaration has no model"
				return false, false, false
			}
			for _, sp := range gd.Specs {
				vs, isV := sp.(*ast.ValueSpec)
				if !isV {
					continue
				}
				for i, nm := range vs.Names {
					v, _ := f.info.Defs[nm].(*types.Var)
					if v == nil || !types.Identical(v.Type().Underlying(), types.Typ[types.Bool]) {
						f.why = "declaration of a non-boolean local has no model"
						return false, false, false
					}
					val := false
					if i < len(vs.Values) {
						var ok bool
						if val, ok = f.eval(vs.Values[i]); !ok {
							return false, false, false
						}
					}
					if f.locals == nil {
						f.locals = map[*types.Var]bool{}
					}
					f.locals[v] = val
				}
			}
		case *ast.AssignStmt:
			if len(st.Lhs) != 1 || len(st.Rhs) != 1 {
				f.why = "assignment has no model"
				return false, false, false
			}
			id, _ := ast.Unparen(st.Lhs[0]).(*ast.Ident)
			var v *types.Var
			if id != nil {
				if st.Tok == token.DEFINE {
					v, _ = f.info.Defs[id].(*types.Var)
				} else {
					v, _ = f.info.Uses[id].(*types.Var)
				}
			}
			if v == nil || !types.Identical(v.Type().Underlying(), types.Typ[types.Bool]) {
				f.why = "assignment to something other than a boolean local has no model"
				return false, false, false
			}
			val, ok := f.eval(st.Rhs[0])
			if !ok {
				return false, false, false
			}
			if f.locals == nil {
				f.locals = map[*types.Var]bool{}
			}
			f.locals[v] = val
		case *ast.BlockStmt:
			r, ret, ok := f.run(st.List)
			if !ok {
				return false, false, false
			}
			if ret {
				return r, true, true
			}
		default:
			f.why = fmt.Sprintf("statement %T has no model", s)
			return false, false, false
		}
	}
	return false, false, true
}

// C02 — tax summary partitions taxable amounts and sums them correctly.
func C02(c *core.Ctx) {
	c.Explain("Decided: (R1) the group identity of a rate row — both matching functions (row vs combo, row vs row) are interpreted as boolean functions over every combination of nil/non-nil percent and surcharge and equal/unequal country, extensions, percent and surcharge, and must equal the specified identity: extensions and country equal, and either both exempt, or both with equal percent and (both without surcharge or both with equal surcharge); no combination dereferences a nil; a new row copies exactly those fields from the combo; (R2) retained categories are subtracted and ordinary ones added, surcharges included, the two branches being mirror images; (R3) the base, category, surcharge and total accumulators raise their precision to each addend (shared with C01-R1); (R4) the included tax is taken out of every line that has that category with a percentage, with the percentage of that very combo. Not decided: the numeric identities (amount = percent of base, sums).")
	c.Rule("C02-R1", "rate-group matching equals the specified identity on every nil/equality combination", 3)
	c.Rule("C02-R2", "retained branch mirrors the ordinary branch with Subtract", 1)
	c.Rule("C02-R3", "tax accumulators raise precision to each addend", 3)
	c.Rule("C02-R4", "included tax removed from every line with its own percentage", 2)
	c02Matching(c)
	c02Retained(c)
	accumulatorRule(c, "C02-R3", []string{"tax"})
	rowSeedRule(c, "C02-R3")
	c02Included(c)
	c.Rule("C02-R5", "each group's amount (and surcharge) is Percent.Of(the group's stored Base)", 2)
	rateAmountFromBase(c, "C02-R5")
	c02MapEquality(c)
	c02AliasedWorkingValue(c)
	c02EveryLineMapped(c)
	c02WorkingPrecision(c)
	c.Rule("C02-R12", "the percentage a rate key stands for on a date is the table value in force on that date, its first day included (shared with C12-R1)", 5)
	{
		sub := core.NewCtx("C12", c.Tier, c.Seed, c.P, c.VerifDir)
		sub.Quiet = true
		c12Value(sub)
		for _, o := range sub.Obligations() {
			if o.Rule == "C12-R1" {
				c.ObAt("C02-R12", o.Key, o.Pos, o.OK, o.Msg)
			}
		}
	}
	// R11: the summary is rebuilt from the lines on every calculation; a totals member the
	// calculation sets only under a condition (tax_included, taxes, discount, charge…) must be
	// cleared first, or the previous run's figure stays beside the new lines
	c.Rule("C02-R11", "every totals member the calculation assigns is cleared by Totals.reset (shared with C01-R2)", 5)
	{
		sub := core.NewCtx("C01", c.Tier, c.Seed, c.P, c.VerifDir)
		sub.Quiet = true
		roundCoverage(sub, "C01-R2")
		for _, o := range sub.Obligations() {
			if o.Rule == "C01-R2" && strings.HasSuffix(o.Key, "#reset") {
				c.ObAt("C02-R11", o.Key, o.Pos, o.OK, o.Msg)
			}
		}
	}
}

func c02Matching(c *core.Ctx) {
	p := c.P
	rtNamed := p.Named("tax", "RateTotal")
	if rtNamed == nil {
		c.Ob("C02-R1", "UNRESOLVED:tax.RateTotal", token.NoPos, false, "type not found")
		return
	}
	n := 0
	for _, fd := range p.Funcs(p.Pkg("tax")) {
		sig := fd.Obj.Type().(*types.Signature)
		if core.RecvNamed(fd.Obj) != rtNamed || sig.Params().Len() != 1 || sig.Results().Len() != 1 || core.TypeString(sig.Results().At(0).Type()) != "bool" {
			continue
		}
		pt := core.TypeString(sig.Params().At(0).Type())
		if pt != "*tax.Combo" && pt != "*tax.RateTotal" {
			continue
		}
		n++
		info := fd.Pkg.TypesInfo
		recv, arg := sig.Recv(), sig.Params().At(0)
		// canonical paths: row side "R.<field>", other side "O.<field>"; the combo's surcharge is the row's Surcharge.Percent
		pathOf := func(e ast.Expr) string {
			e = ast.Unparen(e)
			deref := false
			if st, ok := e.(*ast.StarExpr); ok {
				e = ast.Unparen(st.X)
				deref = true
			}
			root, path := core.FieldPath(info, e)
			if root == nil || path == "" {
				return ""
			}
			side := ""
			switch root {
			case recv:
				side = "R"
			case arg:
				side = "O"
			default:
				return ""
			}
			// normalise: RateTotal.Surcharge.Percent ≙ Combo.Surcharge (value)
			if path == "Surcharge.Percent" {
				return side + ".Surcharge.*"
			}
			if deref || (path == "Percent" && false) {
				return side + "." + path + ".*"
			}
			return side + "." + path
		}
		// discover atoms with one dry run over all-non-nil/all-equal
		probe := &boolFn{info: info, pathOf: pathOf, nilOf: map[string]bool{}, eqOf: map[string]bool{}, atoms: map[string]bool{}, nils: map[string]bool{}}
		constAtoms := map[string]bool{}
		// collect atoms statically: walk all expressions
		ast.Inspect(fd.Decl.Body, func(m ast.Node) bool {
			if e, ok := m.(ast.Expr); ok {
				switch x := ast.Unparen(e).(type) {
				case *ast.BinaryExpr:
					if x.Op == token.EQL || x.Op == token.NEQ {
						l, r := ast.Unparen(x.X), ast.Unparen(x.Y)
						if core.IsNil(info, l) {
							l, r = r, l
						}
						if core.IsNil(info, r) {
							if pp := pathOf(l); pp != "" {
								probe.nils[pp] = true
							}
						} else if pa, pb := pathOf(l), pathOf(r); pa != "" && pb != "" {
							probe.atoms[eqKey(pa, pb)] = true
						} else if ck := probe.constKey(l, r); ck != "" {
							constAtoms[ck] = true
						}
					}
				case *ast.CallExpr:
					if se, ok := x.Fun.(*ast.SelectorExpr); ok && se.Sel.Name == "Equals" && len(x.Args) == 1 {
						if pa, pb := pathOf(se.X), pathOf(x.Args[0]); pa != "" && pb != "" {
							probe.atoms[eqKey(pa, pb)] = true
						}
					}
				}
			}
			return true
		})
		// Percent.Equals(*x.Percent): receiver pointer auto-deref → path "R.Percent" vs "O.Percent.*": normalise keys
		norm := func(k string) string { return strings.ReplaceAll(k, ".*", "") }
		want := map[string]string{ // normalised atom -> role
			eqKey("R.Ext", "O.Ext"):             "ext",
			eqKey("R.Country", "O.Country"):     "country",
			eqKey("R.Percent", "O.Percent"):     "percent",
			eqKey("R.Surcharge", "O.Surcharge"): "surcharge",
		}
		role := map[string]string{}
		var atomList []string
		missing := map[string]bool{"ext": true, "country": true, "percent": true, "surcharge": true}
		for a := range probe.atoms {
			r, ok := want[norm(a)]
			if !ok {
				c.Undecided("C02-R1", fd.Name()+"#atom:"+a, fd.Decl.Pos(), "comparison between fields that the group identity does not pair")
				continue
			}
			role[a] = r
			delete(missing, r)
			atomList = append(atomList, a)
		}
		sort.Strings(atomList)
		if len(missing) > 0 {
			var ms []string
			for m := range missing {
				ms = append(ms, m)
			}
			sort.Strings(ms)
			c.Ob("C02-R1", fd.Name()+"#compares-all", fd.Decl.Pos(), false, "the group identity does not compare: "+strings.Join(ms, ", ")+" — rows that differ only in it are merged")
			continue
		}
		c.Ob("C02-R1", fd.Name()+"#compares-all", fd.Decl.Pos(), true, "")
		nilPaths := []string{"R.Percent", "O.Percent", "R.Surcharge", "O.Surcharge"}
		rows, badRows := 0, 0
		firstBad := ""
		var constList []string
		for k := range constAtoms {
			constList = append(constList, k)
		}
		sort.Strings(constList)
		if len(constList) > 6 {
			constList = constList[:6]
		}
		nEq := len(atomList)
		for mask := 0; mask < 16; mask++ {
			for eqc := 0; eqc < 1<<(nEq+len(constList)); eqc++ {
				eq := eqc & (1<<nEq - 1)
				f := &boolFn{info: info, pathOf: pathOf, nilOf: map[string]bool{}, eqOf: map[string]bool{}, atoms: map[string]bool{}, nils: map[string]bool{}, constOf: map[string]bool{}}
				for i, np := range nilPaths {
					f.nilOf[np] = mask&(1<<i) != 0
				}
				for i, k := range constList {
					f.constOf[k] = eqc&(1<<(nEq+i)) != 0
				}
				eqRole := map[string]bool{}
				for i, a := range atomList {
					f.eqOf[a] = eq&(1<<i) != 0
					eqRole[role[a]] = f.eqOf[a]
				}
				// two members found equal hold the same constants
				consistent := true
				for _, a := range atomList {
					if !f.eqOf[a] {
						continue
					}
					ps := strings.SplitN(a, "~", 2)
					for _, k := range constList {
						if strings.HasPrefix(k, ps[0]+"=") {
							other := ps[1] + k[len(ps[0]):]
							if v, has := f.constOf[other]; has && v != f.constOf[k] {
								consistent = false
							}
						}
					}
				}
				if !consistent {
					continue
				}
				// infeasible rows: equality atoms of nil pointers are irrelevant; skip duplicates by forcing them true
				if (f.nilOf["R.Percent"] || f.nilOf["O.Percent"]) && !eqRole["percent"] {
					continue
				}
				if (f.nilOf["R.Surcharge"] || f.nilOf["O.Surcharge"]) && !eqRole["surcharge"] {
					continue
				}
				got, returned, ok := f.run(fd.Decl.Body.List)
				if !ok || !returned {
					c.Undecided("C02-R1", fd.Name()+"#interpretation", fd.Decl.Pos(), "cannot interpret the function: "+f.why)
					rows = -1
					break
				}
				rows++
				rp, op, rs, os := f.nilOf["R.Percent"], f.nilOf["O.Percent"], f.nilOf["R.Surcharge"], f.nilOf["O.Surcharge"]
				spec := eqRole["ext"] && eqRole["country"] && ((rp && op) || (!rp && !op && eqRole["percent"] && ((rs && os) || (!rs && !os && eqRole["surcharge"]))))
				if got != spec || f.bad != "" {
					badRows++
					if firstBad == "" {
						firstBad = fmt.Sprintf("row percent nil=%v/%v surcharge nil=%v/%v ext=%v country=%v percent=%v surcharge=%v: function says %v, identity says %v %s", rp, op, rs, os, eqRole["ext"], eqRole["country"], eqRole["percent"], eqRole["surcharge"], got, spec, f.bad)
					}
				}
			}
			if rows < 0 {
				break
			}
		}
		if rows >= 0 {
			c.Ob("C02-R1", fd.Name()+"#truth-table", fd.Decl.Pos(), badRows == 0,
				fmt.Sprintf("%d of %d combinations differ from the specified group identity; e.g. %s", badRows, rows, firstBad))
			c.Extra("truth_table_rows:"+fd.Name(), rows)
		}
	}
	if n < 2 {
		c.Ob("C02-R1", "UNRESOLVED:matching-functions", token.NoPos, false, fmt.Sprintf("only %d matching functions on tax.RateTotal found", n))
	}
	// a new row copies the identity fields from the combo
	if fd := p.Func("tax", "", "newRateTotal"); fd != nil {
		info := fd.Pkg.TypesInfo
		combo := fd.Obj.Type().(*types.Signature).Params().At(0)
		copied := map[string]bool{}
		ast.Inspect(fd.Decl.Body, func(m ast.Node) bool {
			switch x := m.(type) {
			case *ast.AssignStmt:
				for i, l := range x.Lhs {
					if f := core.FieldOf(info, l); f != nil && i < len(x.Rhs) {
						ast.Inspect(x.Rhs[i], func(k ast.Node) bool {
							if se, ok := k.(*ast.SelectorExpr); ok && core.RootVar(info, se) == combo {
								if cf := core.FieldOf(info, se); cf != nil {
									copied[f.Name()+"←"+cf.Name()] = true
								}
							}
							return true
						})
						// pc := *c.Percent; rt.Percent = &pc
						if u, ok := ast.Unparen(x.Rhs[i]).(*ast.UnaryExpr); ok && u.Op == token.AND {
							ld := core.NewLocalDefs(info, fd.Decl.Body)
							src := ld.Resolve(u.X, 2)
							ast.Inspect(src, func(k ast.Node) bool {
								if se, ok := k.(*ast.SelectorExpr); ok && core.RootVar(info, se) == combo {
									if cf := core.FieldOf(info, se); cf != nil {
										copied[f.Name()+"←"+cf.Name()] = true
									}
								}
								return true
							})
						}
					}
				}
			case *ast.KeyValueExpr:
				if id, ok := x.Key.(*ast.Ident); ok {
					ast.Inspect(x.Value, func(k ast.Node) bool {
						if se, ok := k.(*ast.SelectorExpr); ok && core.RootVar(info, se) == combo {
							if cf := core.FieldOf(info, se); cf != nil {
								copied[id.Name+"←"+cf.Name()] = true
							}
						}
						return true
					})
				}
			}
			return true
		})
		var miss []string
		for _, w := range []string{"Country←Country", "Ext←Ext", "Percent←Percent", "Percent←Surcharge"} {
			if !copied[w] {
				miss = append(miss, w)
			}
		}
		c.Ob("C02-R1", fd.Name()+"#copies-identity", fd.Decl.Pos(), len(miss) == 0, "a new rate row does not take from the combo: "+strings.Join(miss, ", "))
	} else {
		c.Ob("C02-R1", "UNRESOLVED:tax.newRateTotal", token.NoPos, false, "function not found")
	}
}

// c02Retained decides the retained-mirror clause by evaluating one iteration of
// the loop over the category totals for the four kinds of category (retained or
// not, with or without surcharge). The summary's Sum, the category's Amount and
// its Surcharge are given three numbers far apart, Amount.Add / Subtract are
// integer + and −, precision-only operations are the identity, and the value
// left in the Sum (or in the local later stored there) must be
// Sum ± (Amount [+ Surcharge]), minus exactly when the category is retained.
func c02Retained(c *core.Ctx) {
	p := c.P
	found := false
	const wS, wA, wC = int64(1000000), int64(1000), int64(1)
	for _, fd := range p.Funcs(p.Pkg("tax")) {
		info := fd.Pkg.TypesInfo
		var lists [][]ast.Stmt
		ast.Inspect(fd.Decl.Body, func(n ast.Node) bool {
			switch x := n.(type) {
			case *ast.BlockStmt:
				lists = append(lists, x.List)
			case *ast.CaseClause:
				lists = append(lists, x.Body)
			}
			return true
		})
		for _, list := range lists {
			for li, stmt := range list {
				rs, ok := stmt.(*ast.RangeStmt)
				if !ok || rs.Value == nil {
					continue
				}
				cat := core.VarOf(info, rs.Value)
				if cat == nil {
					continue
				}
				if nn, _ := core.StructOf(cat.Type()); nn == nil || nn.Obj().Name() != "CategoryTotal" {
					continue
				}
				isSum := func(e ast.Expr) (string, bool) {
					if f := core.FieldOf(info, e); f != nil && f.Name() == "Sum" && core.RootVar(info, e) != cat {
						_, path := core.FieldPath(info, e)
						return path, path != ""
					}
					return "", false
				}
				// the accumulator: a Sum field assigned in the loop, or a local assigned in the
				// loop that is stored in a Sum field right after it
				sumKey := ""
				var sumVar *types.Var
				ast.Inspect(rs.Body, func(m ast.Node) bool {
					if as, ok := m.(*ast.AssignStmt); ok {
						for _, l := range as.Lhs {
							if k, ok := isSum(l); ok {
								sumKey = k
							}
						}
					}
					return true
				})
				if sumKey == "" {
					for _, after := range list[li+1:] {
						as, ok := after.(*ast.AssignStmt)
						if !ok || len(as.Lhs) != 1 || len(as.Rhs) != 1 {
							continue
						}
						if _, ok := isSum(as.Lhs[0]); !ok {
							continue
						}
						if v := core.VarOf(info, as.Rhs[0]); v != nil {
							assigned := false
							ast.Inspect(rs.Body, func(m ast.Node) bool {
								if as2, ok := m.(*ast.AssignStmt); ok {
									for _, l := range as2.Lhs {
										if core.VarOf(info, l) == v {
											assigned = true
										}
									}
								}
								return true
							})
							if assigned {
								sumVar = v
							}
						}
					}
				}
				if sumKey == "" && sumVar == nil {
					continue
				}
				found = true
				okAll, why := true, ""
				for _, kind := range []struct{ retained, surcharge bool }{{false, false}, {false, true}, {true, false}, {true, true}} {
					kind := kind
					ev := &core.AbsEval{Info: info}
					ev.Cell = isSum
					ev.SkipLoop = func(ast.Stmt) bool { return true }
					ev.Branch = func(b *ast.BranchStmt) ([]any, bool) {
						return nil, b.Tok == token.CONTINUE && b.Label == nil
					}
					ev.Atom = func(e ast.Expr) (any, bool) { return c02RetainedAtom(c, ev, info, cat, kind.retained, kind.surcharge, wA, wC, e) }
					if sumVar != nil {
						ev.Set(sumVar, wS)
					} else {
						ev.SetCell(sumKey, wS)
					}
					// a call made for its effects must not be one that writes a Sum itself
					opaque := ""
					ast.Inspect(rs.Body, func(m ast.Node) bool {
						es, ok := m.(*ast.ExprStmt)
						if !ok {
							return true
						}
						if call, ok := es.X.(*ast.CallExpr); ok {
							if fn := core.Callee(info, call); fn != nil && core.InModule(fn.Pkg()) {
								for f := range effectsOf(p).writes[fn] {
									if f.Name() == "Sum" {
										opaque = core.FuncName(fn)
									}
								}
							}
						}
						return true
					})
					_, _, evOK := ev.RunList(rs.Body.List)
					var got any
					if sumVar != nil {
						got = ev.VarValue(sumVar)
					} else {
						got = ev.CellValue(sumKey)
					}
					gv, isN := got.(int64)
					what := "an ordinary category"
					if kind.retained {
						what = "a retained category"
					}
					if kind.surcharge {
						what += " with a surcharge"
					}
					if !evOK || !isN || opaque != "" {
						okAll = false
						why = "UNDECIDED: the effect of one iteration on the Sum could not be evaluated for " + what
						if opaque != "" {
							why += " (" + opaque + " writes a Sum)"
						}
						break
					}
					want := wA
					if kind.surcharge {
						want += wC
					}
					if kind.retained {
						want = -want
					}
					if gv != wS+want {
						okAll = false
						d := gv - wS
						why = fmt.Sprintf("for %s the Sum changes by %s, expected %s", what, c02Decode(d, wA, wC), c02Decode(want, wA, wC))
						break
					}
				}
				msg := "the tax total does not add ordinary categories and subtract retained ones symmetrically (same amounts, surcharges included): " + why
				if strings.HasPrefix(why, "UNDECIDED:") {
					msg = why
				}
				c.Ob("C02-R2", fd.Name()+"#retained-mirror", rs.Pos(), okAll, msg)
			}
		}
	}
	if !found {
		c.Ob("C02-R2", "UNRESOLVED:retained-branch", token.NoPos, false, "no loop over the categories that accumulates into the summary's Sum found in package tax")
	}
}

// c02Decode renders a change of the Sum as a combination of Amount and Surcharge.
func c02Decode(d, wA, wC int64) string {
	a := (d + wA/2) / wA
	if d < 0 {
		a = -((-d + wA/2) / wA)
	}
	cc := d - a*wA
	return fmt.Sprintf("%+d×Amount %+d×Surcharge", a, cc/wC)
}

var (
	effCache     *fieldEffects
	effCacheProg *core.Program
	effCacheMode bool
)

func effectsOf(p *core.Program) *fieldEffects {
	if effCache == nil || effCacheProg != p || effCacheMode != p.InlineMode {
		effCache, effCacheProg, effCacheMode = newFieldEffects(p), p, p.InlineMode
	}
	return effCache
}

// c02RetainedAtom gives values to the expressions one iteration is made of.
func c02RetainedAtom(c *core.Ctx, ev *core.AbsEval, info *types.Info, cat *types.Var, retained, surcharge bool, wA, wC int64, e ast.Expr) (any, bool) {
	e = ast.Unparen(e)
	ofCat := func(x ast.Expr, name string) bool {
		f := core.FieldOf(info, x)
		return f != nil && f.Name() == name && core.RootVar(info, x) == cat
	}
	switch x := e.(type) {
	case *ast.SelectorExpr:
		if ofCat(x, "Retained") {
			return retained, true
		}
		if ofCat(x, "Amount") {
			return wA, true
		}
		// a method expression used as a value: num.Amount.Add
		if fn, _ := info.Uses[x.Sel].(*types.Func); isAmountMethod(fn, "Add", "Subtract") {
			if sel := info.Selections[x]; sel != nil && sel.Kind() == types.MethodExpr {
				return "fn:" + fn.Name(), true
			}
		}
	case *ast.StarExpr:
		if ofCat(x.X, "Surcharge") && surcharge {
			return wC, true
		}
	case *ast.BinaryExpr:
		if x.Op == token.EQL || x.Op == token.NEQ {
			l, r := ast.Unparen(x.X), ast.Unparen(x.Y)
			if core.IsNil(info, l) {
				l, r = r, l
			}
			if core.IsNil(info, r) && ofCat(l, "Surcharge") {
				return (x.Op == token.NEQ) == surcharge, true
			}
			if core.IsNil(info, r) && core.VarOf(info, l) == cat {
				return x.Op == token.NEQ, true // the category at hand is an entry of the list, not a null
			}
		}
	case *ast.CallExpr:
		fn := core.Callee(info, x)
		if fn == nil {
			// a call through a variable holding Amount.Add / Amount.Subtract
			if fv, ok := ev.Eval(x.Fun); ok && len(x.Args) == 2 {
				if name, isS := fv.(string); isS && strings.HasPrefix(name, "fn:") {
					l, ok1 := ev.Eval(x.Args[0])
					r, ok2 := ev.Eval(x.Args[1])
					ln, isL := l.(int64)
					rn, isR := r.(int64)
					if ok1 && ok2 && isL && isR {
						if name == "fn:Add" {
							return ln + rn, true
						}
						return ln - rn, true
					}
				}
			}
			return nil, false
		}
		if isAmountMethod(fn, "Add", "Subtract") {
			var l, r any
			var ok1, ok2 bool
			if sel := info.Selections[ast.Unparen(x.Fun).(*ast.SelectorExpr)]; sel != nil && sel.Kind() == types.MethodExpr && len(x.Args) == 2 {
				l, ok1 = ev.Eval(x.Args[0])
				r, ok2 = ev.Eval(x.Args[1])
			} else if len(x.Args) == 1 {
				l, ok1 = ev.Eval(core.RecvExpr(x))
				r, ok2 = ev.Eval(x.Args[0])
			}
			ln, isL := l.(int64)
			rn, isR := r.(int64)
			if ok1 && ok2 && isL && isR {
				if fn.Name() == "Add" {
					return ln + rn, true
				}
				return ln - rn, true
			}
			return nil, false
		}
		if i, ok := precisionOnly(c.P, fn); ok {
			if i < 0 {
				return ev.Eval(core.RecvExpr(x))
			}
			if i < len(x.Args) {
				return ev.Eval(x.Args[i])
			}
		}
	}
	return nil, false
}

// precisionOnly: the function hands back one of its amount operands with at
// most its precision changed: a precision method of num.Amount (index −1: the
// receiver), or a module function each return of which is one and the same
// parameter, bare or under such methods.
func precisionOnly(p *core.Program, fn *types.Func) (int, bool) {
	if isAmountMethod(fn, "MatchPrecision", "Rescale", "RescaleUp", "RescaleDown", "Upscale", "Downscale", "RescaleRange") {
		return -1, true
	}
	if !core.InModule(fn.Pkg()) {
		return 0, false
	}
	fd := p.DeclOf(fn)
	sig := fn.Type().(*types.Signature)
	if fd == nil || sig.Results().Len() != 1 || !isAmountType(sig.Results().At(0).Type()) {
		return 0, false
	}
	info := fd.Pkg.TypesInfo
	idx, ok, n := -2, true, 0
	ast.Inspect(fd.Decl.Body, func(m ast.Node) bool {
		if _, isLit := m.(*ast.FuncLit); isLit {
			return false
		}
		r, isR := m.(*ast.ReturnStmt)
		if !isR || len(r.Results) != 1 {
			return true
		}
		n++
		x := ast.Unparen(r.Results[0])
		for {
			call, isCall := x.(*ast.CallExpr)
			if !isCall {
				break
			}
			cf := core.Callee(info, call)
			if cf == nil || !isAmountMethod(cf, "MatchPrecision", "Rescale", "RescaleUp", "RescaleDown", "Upscale", "Downscale", "RescaleRange") {
				ok = false
				return true
			}
			x = ast.Unparen(core.RecvExpr(call))
		}
		v := core.VarOf(info, x)
		j, isParam := paramIndex(fn, v)
		if v == nil || !isParam || (idx != -2 && idx != j) {
			ok = false
			return true
		}
		idx = j
		return true
	})
	if !ok || n == 0 || idx < 0 {
		return 0, false
	}
	// the parameter is not assigned in the function
	for range core.NewLocalDefs(info, fd.Decl.Body).All(sig.Params().At(idx)) {
		return 0, false
	}
	return idx, true
}

func c02Included(c *core.Ctx) {
	p := c.P
	n := 0
	for _, fd := range p.Funcs(p.Pkg("tax")) {
		info := fd.Pkg.TypesInfo
		for _, call := range core.CallsTo(info, fd.Decl.Body, func(f *types.Func) bool { return isAmountMethod(f, "Remove") }) {
			n++
			key := fmt.Sprintf("%s#Remove%d", fd.Name(), n)
			// argument: *c.Percent with c := <set>.Get(<includes>)
			arg := ast.Unparen(call.Args[0])
			if st, ok := arg.(*ast.StarExpr); ok {
				arg = ast.Unparen(st.X)
			}
			f := core.FieldOf(info, arg)
			cv := core.RootVar(info, arg)
			okOwn := false
			if f != nil && f.Name() == "Percent" && cv != nil {
				ld := core.NewLocalDefs(info, fd.Decl.Body)
				if d, ok := ld.Before(cv, call.Pos()); ok && d.RHS != nil {
					if gc, ok := ast.Unparen(d.RHS).(*ast.CallExpr); ok {
						if gf := core.Callee(info, gc); gf != nil && gf.Name() == "Get" && len(gc.Args) == 1 {
							if af := core.FieldOf(info, gc.Args[0]); af != nil && af.Name() == "Includes" {
								okOwn = true
							}
						}
					}
				}
			}
			c.Ob("C02-R4", key+"#own-percentage", call.Pos(), okOwn, "the included tax is not removed with the percentage of the line's own combo of the included category")
			// every line
			var stmt ast.Node = call
			ast.Inspect(fd.Decl.Body, func(m ast.Node) bool {
				if as, ok := m.(*ast.AssignStmt); ok && as.Pos() <= call.Pos() && call.End() <= as.End() {
					stmt = as
				}
				return true
			})
			why := everyIteration(p, info, fd.Decl.Body, stmt, func(cond ast.Expr, then bool) bool {
				// presence of the combo / of its percentage, and the retained-category error
				if nilTestOfOperands(info, stmt)(cond, then) {
					return true
				}
				// `c := set.Get(x); c != nil`
				if be, ok := ast.Unparen(cond).(*ast.BinaryExpr); ok && (be.Op == token.NEQ || be.Op == token.EQL) && (core.IsNil(info, be.X) || core.IsNil(info, be.Y)) {
					x := be.X
					if core.IsNil(info, x) {
						x = be.Y
					}
					if v := core.VarOf(info, x); v != nil && v == cv {
						return true
					}
					if se, ok := ast.Unparen(x).(*ast.SelectorExpr); ok && core.RootVar(info, se) == cv {
						if ff := core.FieldOf(info, se); ff != nil && ff.Name() == "Percent" {
							return true
						}
					}
				}
				return false
			})
			c.Ob("C02-R4", key+"#every-line", call.Pos(), why == "", "the included tax is not taken out of every line that has the category with a percentage: "+why)
		}
	}
	if n == 0 {
		c.Ob("C02-R4", "UNRESOLVED:Remove", token.NoPos, false, "no Amount.Remove call in package tax")
	}
}

// c02MapEquality — C02-R6: the group identity compares extension maps with
// tax.Extensions.Equals; that must be an equality, not a one-way containment:
// every return of Equals that is not the constant false lies where the two
// lengths are known equal (or both known zero), and the containment test it
// ends in walks its argument and returns false for a missing key and for a
// differing value.
func c02MapEquality(c *core.Ctx) {
	p := c.P
	c.Rule("C02-R6", "the equalities the group identity is built from are two-way (Extensions.Equals: equal lengths, then containment; Percentage/Amount.Equals: Compare == 0)", 4)
	defer numEqualsByCompare(c, "C02-R6")
	fd := p.Func("tax", "Extensions", "Equals")
	if fd == nil {
		c.Ob("C02-R6", "UNRESOLVED:tax.Extensions.Equals", token.NoPos, false, "method not found")
		return
	}
	info := fd.Pkg.TypesInfo
	recv := recvVar(fd)
	arg := fd.Obj.Type().(*types.Signature).Params().At(0)
	ff := core.NewFuncFlow(fd)
	eld := core.NewLocalDefs(info, fd.Decl.Body)
	lenOf := func(e ast.Expr) *types.Var {
		e = ast.Unparen(e)
		if id, ok := e.(*ast.Ident); ok {
			if v := core.VarOf(info, id); v != nil && len(eld.All(v)) == 1 {
				e = ast.Unparen(eld.Resolve(id, 2)) // size := len(em)
			}
		}
		call, ok := e.(*ast.CallExpr)
		if !ok || len(call.Args) != 1 {
			return nil
		}
		if id, ok := ast.Unparen(call.Fun).(*ast.Ident); !ok || id.Name != "len" {
			return nil
		}
		return core.VarOf(info, call.Args[0])
	}
	bad := ""
	n := 0
	for _, r := range ff.Flow.Returns() {
		if !ff.Flow.Reachable(r) || len(r.Results) != 1 {
			continue
		}
		if tv, ok := info.Types[ast.Unparen(r.Results[0])]; ok && tv.Value != nil && tv.Value.String() == "false" {
			continue
		}
		n++
		equalLen, zeroR, zeroA := false, false, false
		for leaf, val := range ff.Flow.CondsAt(r) {
			be, ok := ast.Unparen(leaf).(*ast.BinaryExpr)
			if !ok || (be.Op != token.EQL && be.Op != token.NEQ) {
				continue
			}
			holdsEq := (be.Op == token.EQL) == val
			lx, ly := lenOf(be.X), lenOf(be.Y)
			if lx != nil && ly != nil && ((lx == recv && ly == arg) || (lx == arg && ly == recv)) && holdsEq {
				equalLen = true
			}
			if lx != nil && ly == nil {
				if tv, ok := info.Types[ast.Unparen(be.Y)]; ok && tv.Value != nil && tv.Value.String() == "0" && holdsEq {
					if lx == recv {
						zeroR = true
					}
					if lx == arg {
						zeroA = true
					}
				}
			}
		}
		if !equalLen && !(zeroR && zeroA) {
			bad = fmt.Sprintf("the return at %s can yield true although the two maps have not been found to have the same number of entries: a map that merely contains the other counts as equal, so which rate group a line joins depends on the order of the lines", p.Rel(r.Pos()))
		}
	}
	c.Ob("C02-R6", fd.Name()+"#equal-lengths", fd.Decl.Pos(), bad == "" && n > 0, bad)
	// the containment test
	cfd := p.Func("tax", "Extensions", "Contains")
	if cfd == nil {
		c.Ob("C02-R6", "UNRESOLVED:tax.Extensions.Contains", token.NoPos, false, "method not found")
		return
	}
	cinfo := cfd.Pkg.TypesInfo
	crecv := recvVar(cfd)
	carg := cfd.Obj.Type().(*types.Signature).Params().At(0)
	okMissing, okDiffer := false, false
	ast.Inspect(cfd.Decl.Body, func(m ast.Node) bool {
		rs, ok := m.(*ast.RangeStmt)
		if !ok || core.VarOf(cinfo, rs.X) != carg || rs.Key == nil || rs.Value == nil {
			return true
		}
		kv, vv := core.VarOf(cinfo, rs.Key), core.VarOf(cinfo, rs.Value)
		// the loop body is evaluated for one entry of the argument under the three situations:
		// key missing in the receiver, present with another value, present with the same value
		run := func(present, equal bool) string {
			var got, pres *types.Var
			bools := map[*types.Var]bool{}
			var eval func(e ast.Expr) (bool, bool)
			eval = func(e ast.Expr) (bool, bool) {
				e = ast.Unparen(e)
				switch x := e.(type) {
				case *ast.Ident:
					v := core.VarOf(cinfo, x)
					if v != nil && v == pres {
						return present, true
					}
					if b, ok := bools[v]; ok && v != nil {
						return b, true
					}
					if tv, ok := cinfo.Types[x]; ok && tv.Value != nil {
						return tv.Value.String() == "true", true
					}
				case *ast.UnaryExpr:
					if x.Op == token.NOT {
						b, ok := eval(x.X)
						return !b, ok
					}
				case *ast.BinaryExpr:
					switch x.Op {
					case token.LAND, token.LOR:
						l, ok := eval(x.X)
						if !ok {
							return false, false
						}
						if x.Op == token.LAND && !l {
							return false, true
						}
						if x.Op == token.LOR && l {
							return true, true
						}
						return eval(x.Y)
					case token.EQL, token.NEQ:
						a, b := core.VarOf(cinfo, x.X), core.VarOf(cinfo, x.Y)
						if got != nil && vv != nil && ((a == got && b == vv) || (a == vv && b == got)) {
							return equal == (x.Op == token.EQL), true
						}
					}
				}
				return false, false
			}
			var exec func(list []ast.Stmt) string
			exec = func(list []ast.Stmt) string {
				for _, st := range list {
					switch x := st.(type) {
					case *ast.DeclStmt:
					case *ast.AssignStmt:
						if len(x.Lhs) == 2 && len(x.Rhs) == 1 {
							if ix, ok := ast.Unparen(x.Rhs[0]).(*ast.IndexExpr); ok && core.VarOf(cinfo, ix.X) == crecv && core.VarOf(cinfo, ix.Index) == kv {
								got, pres = core.VarOf(cinfo, x.Lhs[0]), core.VarOf(cinfo, x.Lhs[1])
								continue
							}
							return "?"
						}
						if len(x.Lhs) == 1 && len(x.Rhs) == 1 {
							if v := core.VarOf(cinfo, x.Lhs[0]); v != nil {
								if b, ok := eval(x.Rhs[0]); ok {
									bools[v] = b
									continue
								}
							}
						}
						return "?"
					case *ast.IfStmt:
						if x.Init != nil {
							if r := exec([]ast.Stmt{x.Init}); r != "" {
								return r
							}
						}
						b, ok := eval(x.Cond)
						if !ok {
							return "?"
						}
						if b {
							if r := exec(x.Body.List); r != "" {
								return r
							}
						} else if x.Else != nil {
							var r string
							if blk, ok := x.Else.(*ast.BlockStmt); ok {
								r = exec(blk.List)
							} else {
								r = exec([]ast.Stmt{x.Else})
							}
							if r != "" {
								return r
							}
						}
					case *ast.ReturnStmt:
						if len(x.Results) == 1 {
							if b, ok := eval(x.Results[0]); ok {
								if b {
									return "true"
								}
								return "false"
							}
						}
						return "?"
					case *ast.BranchStmt:
						if x.Tok == token.CONTINUE {
							return "next"
						}
						return "?"
					case *ast.BlockStmt:
						if r := exec(x.List); r != "" {
							return r
						}
					default:
						return "?"
					}
				}
				return ""
			}
			r := exec(rs.Body.List)
			if r == "" {
				r = "next"
			}
			return r
		}
		okMissing = run(false, false) == "false" && run(false, true) == "false"
		okDiffer = run(true, false) == "false" && run(true, true) == "next"
		return true
	})
	c.Ob("C02-R6", cfd.Name()+"#entrywise", cfd.Decl.Pos(), okMissing && okDiffer,
		"Extensions.Contains does not return false both for a key of its argument that is missing and for one whose value differs")
}

// c02AliasedWorkingValue — C02-R7: where the address of a working variable of
// the calculation (a parameter or local amount such as `zero`) is stored in a
// row (`ct.Surcharge = &zero`), the row's member is replaced, never written
// through: `*ct.Surcharge = …` would change the variable for everything that
// reads it afterwards (every later exempt row's `rt.Amount = zero`).
func c02AliasedWorkingValue(c *core.Ctx) {
	p := c.P
	c.Rule("C02-R7", "no store through a row member that may hold the address of a working variable", 0)
	n := 0
	for _, fd := range p.Funcs(p.Pkg("tax")) {
		info := fd.Pkg.TypesInfo
		type alias struct {
			loc ast.Expr
			v   *types.Var
		}
		var aliases []alias
		ast.Inspect(fd.Decl.Body, func(m ast.Node) bool {
			as, ok := m.(*ast.AssignStmt)
			if !ok || len(as.Lhs) != len(as.Rhs) {
				return true
			}
			for i, r := range as.Rhs {
				u, ok := ast.Unparen(r).(*ast.UnaryExpr)
				if !ok || u.Op != token.AND {
					continue
				}
				v := core.VarOf(info, u.X)
				if v == nil || v.IsField() || core.FieldOf(info, as.Lhs[i]) == nil {
					continue
				}
				// a variable declared in the same block as the store and not read after it is a
				// fresh cell (x := …; p.F = &x); anything else is a working variable
				if _, isParam := paramIndex(fd.Obj, v); !isParam {
					readLater := false
					ast.Inspect(fd.Decl.Body, func(k ast.Node) bool {
						if id, ok := k.(*ast.Ident); ok && info.Uses[id] == types.Object(v) && id.Pos() > as.End() {
							readLater = true
						}
						return true
					})
					if !readLater {
						continue
					}
				}
				aliases = append(aliases, alias{as.Lhs[i], v})
			}
			return true
		})
		for _, al := range aliases {
			n++
			bad := ""
			ast.Inspect(fd.Decl.Body, func(m ast.Node) bool {
				var lhs []ast.Expr
				switch x := m.(type) {
				case *ast.AssignStmt:
					lhs = x.Lhs
				case *ast.IncDecStmt:
					lhs = []ast.Expr{x.X}
				}
				for _, l := range lhs {
					if st, ok := ast.Unparen(l).(*ast.StarExpr); ok && sameLoc(info, st.X, al.loc) {
						bad = p.Rel(l.Pos())
					}
				}
				return true
			})
			c.Ob("C02-R7", fmt.Sprintf("%s#%s=&%s", fd.Name(), types.ExprString(al.loc), al.v.Name()), al.loc.Pos(), bad == "",
				fmt.Sprintf("%s may hold the address of `%s`, which the function goes on reading, and is written through at %s: every later use of `%s` sees the accumulated value", types.ExprString(al.loc), al.v.Name(), bad, al.v.Name()))
		}
	}
	if n == 0 {
		c.Note("C02-R7: no row member is given the address of a working variable in package tax")
	}
}

// c02EveryLineMapped — C02-R8: every taxable line reaches the tax summary: in
// package tax, a loop over the calculator's []TaxableLine that builds the
// internal line list stores (or appends) an entry for every element — a line
// that is left out because its total is zero or it has no taxes never has its
// rate resolved and its (empty) group is missing from the summary.
func c02EveryLineMapped(c *core.Ctx) {
	p := c.P
	c.Rule("C02-R8", "every taxable line is mapped into the tax calculation", 1)
	pk := p.Pkg("tax")
	tl := p.Named("tax", "TaxableLine")
	if pk == nil || tl == nil {
		c.Ob("C02-R8", "UNRESOLVED:tax.TaxableLine", token.NoPos, false, "type not found")
		return
	}
	n := 0
	for _, fd := range p.Funcs(pk) {
		if p.IsTestFile(fd.Decl.Pos()) || fd.Decl.Body == nil {
			continue
		}
		info := fd.Pkg.TypesInfo
		ast.Inspect(fd.Decl.Body, func(m ast.Node) bool {
			rs, ok := m.(*ast.RangeStmt)
			if !ok {
				return true
			}
			sl, ok := info.TypeOf(rs.X).Underlying().(*types.Slice)
			if !ok || !types.Identical(sl.Elem(), tl) {
				return true
			}
			// the store that maps the element: X[i] = … or X = append(X, …)
			var store ast.Stmt
			ast.Inspect(rs.Body, func(k ast.Node) bool {
				as, ok := k.(*ast.AssignStmt)
				if !ok || len(as.Lhs) != 1 || store != nil {
					return true
				}
				// X[i] = …, or a member of the element: X[i].f = …
				for l := ast.Unparen(as.Lhs[0]); ; {
					if _, isIdx := l.(*ast.IndexExpr); isIdx {
						store = as
						break
					}
					se, isSel := l.(*ast.SelectorExpr)
					if !isSel {
						break
					}
					l = ast.Unparen(se.X)
				}
				if call, isCall := ast.Unparen(as.Rhs[0]).(*ast.CallExpr); isCall {
					if id, isId := call.Fun.(*ast.Ident); isId && id.Name == "append" && len(call.Args) >= 2 && core.VarOf(info, call.Args[0]) == core.VarOf(info, as.Lhs[0]) && core.VarOf(info, as.Lhs[0]) != nil {
						store = as
					}
				}
				return true
			})
			n++
			key := fmt.Sprintf("%s#lines-mapped%d", fd.Name(), n)
			if store == nil {
				return true // a loop that only reads the lines
			}
			why := everyIteration(p, info, fd.Decl.Body, store, func(ast.Expr, bool) bool { return false })
			c.Ob("C02-R8", key, store.Pos(), why == "", "not every taxable line is taken into the tax calculation: "+why+" — a line that is left out never has its rate key resolved (its combo keeps a nil percent) and its group is missing from the summary")
			return true
		})
	}
	if n == 0 {
		c.Ob("C02-R8", "tax#lines-mapped", token.NoPos, false, "NOT FOUND: no loop over []tax.TaxableLine in package tax")
	}
}

// c02WorkingPrecision — C02-R9: the working values of the calculation keep
// their precision: an unexported member of a struct of package tax or bill (the
// internal line total, the precise category amount, the precise sum) is never
// assigned the result of a precision-lowering call (Rescale, RescaleDown,
// Downscale, RescaleRange). Presentation rounding lowers the exported,
// presented members only.
func c02WorkingPrecision(c *core.Ctx) {
	p := c.P
	c.Rule("C02-R9", "working values (unexported members) are never lowered in precision", 0)
	n, bad := 0, 0
	for _, rel := range []string{"tax", "bill", "pay"} {
		pk := p.Pkg(rel)
		if pk == nil {
			continue
		}
		for _, fd := range p.Funcs(pk) {
			if p.IsTestFile(fd.Decl.Pos()) || fd.Decl.Body == nil {
				continue
			}
			info := fd.Pkg.TypesInfo
			k := 0
			ast.Inspect(fd.Decl.Body, func(m ast.Node) bool {
				as, ok := m.(*ast.AssignStmt)
				if !ok || len(as.Lhs) != len(as.Rhs) {
					return true
				}
				for i, l := range as.Lhs {
					l = ast.Unparen(l)
					if st, isStar := l.(*ast.StarExpr); isStar {
						l = ast.Unparen(st.X)
					}
					f := core.FieldOf(info, l)
					if f == nil || f.Exported() || !isAmountLike(f.Type()) {
						continue
					}
					n++
					call, isCall := ast.Unparen(as.Rhs[i]).(*ast.CallExpr)
					if !isCall {
						continue
					}
					fn := core.Callee(info, call)
					if isAmountMethod(fn, "Rescale") || isAmountMethod(fn, "RescaleDown") || isAmountMethod(fn, "Downscale") || isAmountMethod(fn, "RescaleRange") {
						k++
						bad++
						c.Ob("C02-R9", fmt.Sprintf("%s#%s%d", fd.Name(), f.Name(), k), as.Pos(), false, fmt.Sprintf("%s assigns the working value %s from %s: the value the sums and percentages are computed from is rounded before they are, so a group's base is no longer the sum of its lines' totals and its amount not the percentage of the true base", fd.Name(), types.ExprString(as.Lhs[i]), types.ExprString(as.Rhs[i])))
					}
				}
				return true
			})
		}
	}
	c.Extra("C02-R9_working_value_assignments", n)
	c.Ob("C02-R9", "working-values#precision-kept", token.NoPos, bad == 0, fmt.Sprintf("%d working values are lowered in precision", bad))
}

func isAmountLike(t types.Type) bool {
	if pt, ok := t.(*types.Pointer); ok {
		t = pt.Elem()
	}
	s := core.TypeString(t)
	return s == "num.Amount" || s == "num.Percentage"
}
