package props

import (
	"encoding/json"
	"fmt"
	"go/ast"
	"go/token"
	"go/types"
	"os"
	"path/filepath"
	"sort"
	"strings"

	"goblcheck/core"
)

// c09KeysForwarded — C09-R7: a verification function that is given public
// keys uses them: the key parameter (a *dsig.PublicKey or a variadic list of
// them) of every function outside package dsig is handed on — to a call, with
// `keys...` for a list, or ranged over — on the way to the verification. A
// wrapper that drops the list (`e.verifySignature(sig)` for
// `e.verifySignature(sig, keys...)`) verifies against no key at all: the
// contents-only branch answers, and any key "matches".
func c09KeysForwarded(c *core.Ctx) {
	p := c.P
	c.Rule("C09-R7", "functions that are given public keys hand them on to the verification", 3)
	isKey := func(t types.Type) (bool, bool) { // is key, is list
		if sl, ok := t.(*types.Slice); ok {
			t = sl.Elem()
			if pt, ok := t.(*types.Pointer); ok && core.TypeString(pt.Elem()) == "dsig.PublicKey" {
				return true, true
			}
			return false, false
		}
		if pt, ok := t.(*types.Pointer); ok && core.TypeString(pt.Elem()) == "dsig.PublicKey" {
			return true, false
		}
		return false, false
	}
	n := 0
	for _, fd := range p.AllFuncs() {
		if p.IsTestFile(fd.Decl.Pos()) || fd.Decl.Body == nil {
			continue
		}
		rel := core.RelPkg(fd.Obj.Pkg().Path())
		if rel == "dsig" || strings.HasPrefix(rel, "examples") {
			continue
		}
		info := fd.Pkg.TypesInfo
		sig := fd.Obj.Type().(*types.Signature)
		for i := 0; i < sig.Params().Len(); i++ {
			pv := sig.Params().At(i)
			ok, list := isKey(pv.Type())
			if !ok {
				continue
			}
			n++
			used := false
			ast.Inspect(fd.Decl.Body, func(nd ast.Node) bool {
				switch x := nd.(type) {
				case *ast.CallExpr:
					for j, a := range x.Args {
						if core.VarOf(info, a) == pv {
							// a list is handed on whole: `keys...` into a variadic parameter, or as it is
							// into a parameter that is a slice
							if !list || (x.Ellipsis.IsValid() && j == len(x.Args)-1) {
								used = true
							} else if fn := core.Callee(info, x); fn != nil {
								if fs := fn.Type().(*types.Signature); j < fs.Params().Len() && !(fs.Variadic() && j >= fs.Params().Len()-1) {
									if _, isSlice := fs.Params().At(j).Type().(*types.Slice); isSlice {
										used = true
									}
								}
							}
						}
					}
					if re := core.RecvExpr(x); re != nil && core.VarOf(info, re) == pv {
						used = true
					}
				case *ast.RangeStmt:
					if core.VarOf(info, x.X) == pv {
						used = true
					}
				case *ast.AssignStmt:
					// kept for later use (a field of a request or options structure)
					for _, r := range x.Rhs {
						if core.VarOf(info, r) == pv {
							used = true
						}
					}
				case *ast.KeyValueExpr:
					if core.VarOf(info, x.Value) == pv {
						used = true
					}
				}
				return true
			})
			c.Ob("C09-R7", fmt.Sprintf("%s#key:%s", fd.Name(), pv.Name()), fd.Decl.Pos(), used,
				fmt.Sprintf("%s is given the public key(s) `%s` and neither hands them to a call (with `%s...` for the list), ranges over them nor keeps them: what it verifies is verified against no key — the contents-only answer is returned for any key", fd.Name(), pv.Name(), pv.Name()))
		}
	}
	c.Ob("C09-R7", "key-parameters#found", token.NoPos, n >= 3, fmt.Sprintf("only %d functions with public-key parameters were found outside dsig", n))
}

// c09SignParseAlgorithms — C09-R8 (shared as C10-R8): a signature the library
// produces must be one it can read back: every algorithm the private key's
// algorithm selection can return is in the list of algorithms ParseSigned is
// told to accept. Otherwise Sign succeeds with such a key, the envelope says
// "signed", and every path that parses it (a JSON round trip, the CLI, bulk
// and HTTP verification) refuses its own output.
func c09SignParseAlgorithms(c *core.Ctx, rule string) {
	p := c.P
	c.Rule(rule, "every algorithm a key can sign with is accepted when signatures are parsed", 1)
	pk := p.Pkg("dsig")
	fd := p.Func("dsig", "PrivateKey", "signatureAlgorithm")
	if pk == nil || fd == nil {
		c.Ob(rule, "UNRESOLVED:dsig.PrivateKey.signatureAlgorithm", token.NoPos, false, "function not found")
		return
	}
	info := fd.Pkg.TypesInfo
	constName := func(e ast.Expr) string {
		switch x := ast.Unparen(e).(type) {
		case *ast.SelectorExpr:
			if cn, ok := info.Uses[x.Sel].(*types.Const); ok {
				return cn.Val().ExactString()
			}
		case *ast.Ident:
			if cn, ok := info.Uses[x].(*types.Const); ok {
				return cn.Val().ExactString()
			}
		}
		if tv, ok := info.Types[e]; ok && tv.Value != nil {
			return tv.Value.ExactString()
		}
		return ""
	}
	signs := map[string]token.Pos{}
	undecided := false
	ast.Inspect(fd.Decl.Body, func(n ast.Node) bool {
		rs, ok := n.(*ast.ReturnStmt)
		if !ok || len(rs.Results) != 2 || !core.IsNil(info, rs.Results[1]) {
			return true
		}
		if s := constName(rs.Results[0]); s != "" {
			signs[s] = rs.Pos()
		} else {
			undecided = true
		}
		return true
	})
	// the lists handed to jose.ParseSigned in the package
	accepted := map[string]bool{}
	nParse := 0
	for _, pfd := range p.Funcs(pk) {
		if p.IsTestFile(pfd.Decl.Pos()) || pfd.Decl.Body == nil {
			continue
		}
		pinfo := pfd.Pkg.TypesInfo
		for _, call := range core.CallsTo(pinfo, pfd.Decl.Body, func(f *types.Func) bool { return strings.HasPrefix(f.Name(), "ParseSigned") && f.Pkg() != nil && strings.Contains(f.Pkg().Path(), "jose") }) {
			if len(call.Args) < 2 {
				continue
			}
			nParse++
			var lit *ast.CompositeLit
			switch a := ast.Unparen(call.Args[1]).(type) {
			case *ast.CompositeLit:
				lit = a
			case *ast.Ident:
				if v, ok := pinfo.Uses[a].(*types.Var); ok {
					for _, file := range pk.Syntax {
						ast.Inspect(file, func(n ast.Node) bool {
							if vs, ok := n.(*ast.ValueSpec); ok {
								for i, nm := range vs.Names {
									if pinfo.Defs[nm] == v && i < len(vs.Values) {
										lit, _ = ast.Unparen(vs.Values[i]).(*ast.CompositeLit)
									}
								}
							}
							return true
						})
					}
				}
			}
			if lit == nil {
				undecided = true
				continue
			}
			for _, el := range lit.Elts {
				if s := constName(el); s != "" {
					accepted[s] = true
				} else {
					undecided = true
				}
			}
		}
	}
	if undecided || nParse == 0 || len(signs) == 0 {
		c.Undecided(rule, "dsig#algorithms", fd.Decl.Pos(), fmt.Sprintf("the algorithms signed with (%d found) or parsed (%d ParseSigned calls) are not constant lists", len(signs), nParse))
		return
	}
	var names []string
	for s := range signs {
		names = append(names, s)
	}
	sort.Strings(names)
	for _, s := range names {
		c.Ob(rule, "dsig#signs-with:"+strings.Trim(s, `"`), signs[s], accepted[s],
			fmt.Sprintf("a private key can sign with %s, which is not among the algorithms accepted when a signature is parsed (%v): Sign succeeds and the envelope counts as signed, but parsing the serialised envelope — a JSON round trip, CLI / bulk / HTTP verify — fails on the library's own signature", s, keysOf(accepted)))
	}
}

// c14CurrencyExponents — C14-R19: the `subunits` of a currency definition is
// used as a decimal exponent (Def.Zero, Rescale; every amount of a document in
// that currency is printed by dividing by 10^subunits). 10^e fits an int64 only
// up to e = 18: a larger value in data/currency/*.json makes intPow wrap to 0
// and Amount.String divide by zero — a panic while serialising, digesting or
// validating any document in that currency.
func c14CurrencyExponents(c *core.Ctx) {
	p := c.P
	c.Rule("C14-R19", "the decimal exponent of every shipped currency definition keeps 10^e within int64", 100)
	dir := filepath.Join(p.Repo, "data", "currency")
	ents, err := os.ReadDir(dir)
	if err != nil {
		c.Ob("C14-R19", "UNRESOLVED:data/currency", token.NoPos, false, "directory not readable")
		return
	}
	for _, e := range ents {
		if e.IsDir() || !strings.HasSuffix(e.Name(), ".json") {
			continue
		}
		b, err := readSubjectFile(filepath.Join(dir, e.Name()))
		if err != nil {
			continue
		}
		var list []struct {
			ISOCode  string  `json:"iso_code"`
			Subunits float64 `json:"subunits"`
		}
		if json.Unmarshal(b, &list) != nil {
			c.Undecided("C14-R19", "data/currency/"+e.Name(), token.NoPos, "not a list of currency definitions")
			continue
		}
		for _, d := range list {
			c.ObAt("C14-R19", "currency:"+d.ISOCode+"#subunits", "data/currency/"+e.Name(), d.Subunits >= 0 && d.Subunits <= 18 && d.Subunits == float64(int(d.Subunits)),
				fmt.Sprintf("currency %s declares subunits %v, which the library uses as the number of decimals: 10^%v does not fit an int64, the power wraps to 0 and printing any amount of a document in this currency divides by zero", d.ISOCode, d.Subunits, d.Subunits))
		}
	}
}
