package props

import (
	"fmt"
	"go/ast"
	"go/token"
	"go/types"
	"strings"

	"goblcheck/core"
)

// Accum is a self-accumulation L = L.Add(Y) / L = L.Subtract(Y) on num.Amount.
type Accum struct {
	FD      *core.FuncDecl
	Assign  *ast.AssignStmt
	Call    *ast.CallExpr
	Op      string
	Dest    ast.Expr
	Addend  ast.Expr
	Matched bool
	How     string
	// Reversed: L = Y.Add(L) — the sum takes the addend's precision, not its own
	Reversed bool
}

func isAmountMethod(fn *types.Func, names ...string) bool {
	if fn == nil {
		return false
	}
	r := core.RecvNamed(fn)
	if r == nil || r.Obj().Pkg() == nil || r.Obj().Pkg().Path() != core.ModPath+"/num" || r.Obj().Name() != "Amount" {
		return false
	}
	for _, n := range names {
		if fn.Name() == n {
			return true
		}
	}
	return len(names) == 0
}

func sameLoc(info *types.Info, a, b ast.Expr) bool {
	a, b = ast.Unparen(a), ast.Unparen(b)
	if s, ok := a.(*ast.StarExpr); ok {
		a = ast.Unparen(s.X)
	}
	if s, ok := b.(*ast.StarExpr); ok {
		b = ast.Unparen(s.X)
	}
	ra, pa := core.FieldPath(info, a)
	rb, pb := core.FieldPath(info, b)
	return ra != nil && ra == rb && pa == pb
}

// isMatchWrapper recognises a module function f(…, a, b Amount) Amount all of
// whose returns are `a` or `a.MatchPrecision(b)`; it returns the indices of a, b.
func isMatchWrapper(p *core.Program, fn *types.Func) (int, int, bool) {
	fd := p.DeclOf(fn)
	if fd == nil {
		return 0, 0, false
	}
	sig := fn.Type().(*types.Signature)
	if sig.Results().Len() != 1 || core.TypeString(sig.Results().At(0).Type()) != "num.Amount" {
		return 0, 0, false
	}
	info := fd.Pkg.TypesInfo
	ai, bi := -1, -1
	ok := true
	n := 0
	ast.Inspect(fd.Decl.Body, func(m ast.Node) bool {
		r, isR := m.(*ast.ReturnStmt)
		if !isR || len(r.Results) != 1 {
			return true
		}
		n++
		e := ast.Unparen(r.Results[0])
		idx := func(x ast.Expr) int {
			v := core.VarOf(info, x)
			for i := 0; i < sig.Params().Len(); i++ {
				if sig.Params().At(i) == v {
					return i
				}
			}
			return -1
		}
		if cl, isC := e.(*ast.CallExpr); isC {
			if isAmountMethod(core.Callee(info, cl), "MatchPrecision") && len(cl.Args) == 1 {
				a, b := idx(core.RecvExpr(cl)), idx(cl.Args[0])
				if a < 0 || b < 0 || (ai >= 0 && ai != a) {
					ok = false
				}
				ai, bi = a, b
				return true
			}
			ok = false
			return true
		}
		a := idx(e)
		if a < 0 || (ai >= 0 && ai != a) {
			ok = false
		}
		if ai < 0 {
			ai = a
		}
		return true
	})
	if !ok || n == 0 || ai < 0 || bi < 0 {
		return 0, 0, false
	}
	return ai, bi, true
}

func sameExpr(a, b ast.Expr) bool {
	return types.ExprString(ast.Unparen(a)) == types.ExprString(ast.Unparen(b))
}

// FindAccums lists the self-accumulations of a function and decides for each
// whether the accumulator's precision is raised to the addend's first.
func FindAccums(p *core.Program, fd *core.FuncDecl) []Accum {
	info := fd.Pkg.TypesInfo
	var out []Accum
	var visit func(list []ast.Stmt)
	visit = func(list []ast.Stmt) {
		for i, s := range list {
			as, ok := s.(*ast.AssignStmt)
			if !ok || len(as.Lhs) != 1 || len(as.Rhs) != 1 {
				continue
			}
			call, ok := ast.Unparen(as.Rhs[0]).(*ast.CallExpr)
			if !ok || len(call.Args) != 1 {
				continue
			}
			fn := core.Callee(info, call)
			if !isAmountMethod(fn, "Add", "Subtract") {
				continue
			}
			recv := core.RecvExpr(call)
			dest := as.Lhs[0]
			acc := Accum{FD: fd, Assign: as, Call: call, Op: fn.Name(), Dest: dest, Addend: call.Args[0]}
			matchedRecv := false
			// receiver is X.MatchPrecision(Y)
			if rc, ok := ast.Unparen(recv).(*ast.CallExpr); ok && isAmountMethod(core.Callee(info, rc), "MatchPrecision") && len(rc.Args) == 1 {
				if sameExpr(rc.Args[0], call.Args[0]) {
					matchedRecv = true
				}
				recv = core.RecvExpr(rc)
			} else if rc, ok := ast.Unparen(recv).(*ast.CallExpr); ok {
				// receiver is wrapper(…, X, Y) with wrapper ≡ X or X.MatchPrecision(Y)
				if wf := core.Callee(info, rc); wf != nil && core.InModule(wf.Pkg()) {
					if ai, bi, ok := isMatchWrapper(p, wf); ok && ai < len(rc.Args) && bi < len(rc.Args) {
						if sameExpr(rc.Args[bi], call.Args[0]) {
							matchedRecv = true
						}
						recv = rc.Args[ai]
					}
				}
			}
			self := sameLoc(info, dest, recv)
			// pointer idiom: tmp := P.Add(a); P = &tmp
			if !self && as.Tok == token.DEFINE && i+1 < len(list) {
				if nx, ok := list[i+1].(*ast.AssignStmt); ok && len(nx.Lhs) == 1 && len(nx.Rhs) == 1 {
					if u, ok := ast.Unparen(nx.Rhs[0]).(*ast.UnaryExpr); ok && u.Op == token.AND && core.VarOf(info, u.X) == core.VarOf(info, dest) && sameLoc(info, nx.Lhs[0], recv) {
						self = true
						acc.Dest = nx.Lhs[0]
					}
				}
			}
			// the new sum is built in a scratch variable (the addend's own, a parameter) whose address
			// then becomes the accumulator: a = P.MatchPrecision(a).Add(a) … P = &a
			if !self && as.Tok == token.ASSIGN {
				if dv := core.VarOf(info, dest); dv != nil {
					ast.Inspect(fd.Decl.Body, func(n ast.Node) bool {
						nx, ok := n.(*ast.AssignStmt)
						if !ok || len(nx.Lhs) != 1 || len(nx.Rhs) != 1 || nx.Pos() < as.End() {
							return true
						}
						if u, ok := ast.Unparen(nx.Rhs[0]).(*ast.UnaryExpr); ok && u.Op == token.AND && core.VarOf(info, u.X) == dv && sameLoc(info, nx.Lhs[0], recv) {
							self = true
							acc.Dest = nx.Lhs[0]
						}
						return true
					})
				}
			}
			if !self && fn.Name() == "Add" && sameLoc(info, dest, call.Args[0]) && !sameLoc(info, dest, recv) {
				// operands swapped: num.Amount.Add keeps the receiver's exponent
				acc.Addend, acc.Reversed, acc.How = recv, true, "operands swapped"
				out = append(out, acc)
				continue
			}
			if !self {
				continue
			}
			switch {
			case matchedRecv:
				acc.Matched, acc.How = true, "receiver is raised to the addend's precision in the same expression"
			case i > 0:
				if ps, ok := list[i-1].(*ast.AssignStmt); ok && len(ps.Lhs) == 1 && len(ps.Rhs) == 1 && sameLoc(info, ps.Lhs[0], recv) {
					if pc, ok := ast.Unparen(ps.Rhs[0]).(*ast.CallExpr); ok {
						pf := core.Callee(info, pc)
						if isAmountMethod(pf, "MatchPrecision") && len(pc.Args) == 1 && sameLoc(info, core.RecvExpr(pc), recv) && sameExpr(pc.Args[0], call.Args[0]) {
							acc.Matched, acc.How = true, "preceded by L = L.MatchPrecision(addend)"
						} else if pf != nil && core.InModule(pf.Pkg()) {
							if ai, bi, ok := isMatchWrapper(p, pf); ok && ai < len(pc.Args) && bi < len(pc.Args) && sameLoc(info, pc.Args[ai], recv) && sameExpr(pc.Args[bi], call.Args[0]) {
								acc.Matched, acc.How = true, "preceded by L = "+pf.Name()+"(…, L, addend)"
							}
						}
					}
				}
			}
			out = append(out, acc)
		}
	}
	ast.Inspect(fd.Decl.Body, func(n ast.Node) bool {
		switch b := n.(type) {
		case *ast.BlockStmt:
			visit(b.List)
		case *ast.CaseClause:
			visit(b.Body)
		}
		return true
	})
	return out
}

// zeroSeed decides whether an expression denotes a currency zero (an amount
// whose precision is exactly the currency's decimals).
type zeroSeed struct {
	p    *core.Program
	memo map[types.Object]int // 1 yes, 2 no, 3 in progress
}

func (z *zeroSeed) expr(fd *core.FuncDecl, e ast.Expr, depth int) bool {
	if depth > 6 {
		return false
	}
	info := fd.Pkg.TypesInfo
	e = ast.Unparen(e)
	switch x := e.(type) {
	case *ast.CallExpr:
		if fn := core.Callee(info, x); fn != nil && core.IsFunc(fn, core.ModPath+"/currency", "Def", "Zero") {
			return true
		}
	case *ast.UnaryExpr:
		if x.Op == token.AND {
			return z.expr(fd, x.X, depth+1)
		}
	case *ast.StarExpr:
		return z.expr(fd, x.X, depth+1)
	case *ast.Ident:
		v := core.VarOf(info, x)
		if v == nil {
			return false
		}
		switch z.memo[v] {
		case 1:
			return true
		case 2, 3:
			return false
		}
		z.memo[v] = 3
		res := false
		if i, isParam := paramIndex(fd.Obj, v); isParam {
			// every module call site passes a zero seed
			res = true
			n := 0
			for _, cf := range z.p.AllFuncs() {
				cinfo := cf.Pkg.TypesInfo
				for _, call := range core.CallsTo(cinfo, cf.Decl.Body, func(f *types.Func) bool { return f.Origin() == fd.Obj }) {
					n++
					var a ast.Expr
					if i == -1 {
						a = core.RecvExpr(call)
					} else if i < len(call.Args) {
						a = call.Args[i]
					}
					if a == nil || !z.expr(cf, a, depth+1) {
						res = false
					}
				}
			}
			if n == 0 {
				res = false
			}
		} else {
			ld := core.NewLocalDefs(info, fd.Decl.Body)
			defs := ld.All(v)
			if len(defs) > 0 && defs[0].RHS != nil {
				res = z.expr(fd, defs[0].RHS, depth+1) // the seed is the first definition
			}
		}
		if res {
			z.memo[v] = 1
		} else {
			z.memo[v] = 2
		}
		return res
	case *ast.SelectorExpr:
		f := core.FieldOf(info, x)
		if f == nil {
			return false
		}
		// the seed that reaches here: the nearest earlier assignment to the same location in this function
		var seed ast.Expr
		var seedPos token.Pos
		ast.Inspect(fd.Decl.Body, func(n ast.Node) bool {
			as, ok := n.(*ast.AssignStmt)
			if !ok || as.Pos() >= x.Pos() || len(as.Lhs) != len(as.Rhs) {
				return true
			}
			for i, l := range as.Lhs {
				if sameLoc(info, l, x) {
					r := ast.Unparen(as.Rhs[i])
					// skip the accumulation steps themselves (L = L.Add(..), L = match(L, ..))
					selfRef := false
					ast.Inspect(r, func(m ast.Node) bool {
						if e, ok := m.(ast.Expr); ok && sameLoc(info, e, x) {
							selfRef = true
						}
						return true
					})
					if !selfRef && as.Pos() > seedPos {
						seed, seedPos = r, as.Pos()
					}
				}
			}
			return true
		})
		if seed != nil {
			return z.expr(fd, seed, depth+1)
		}
		return z.field(f, depth+1)
	}
	return false
}

// field: some assignment to this struct field in the module stores a zero seed.
func (z *zeroSeed) field(f *types.Var, depth int) bool {
	switch z.memo[f] {
	case 1:
		return true
	case 2, 3:
		return false
	}
	z.memo[f] = 3
	res := false
	for _, fd := range z.p.AllFuncs() {
		if fd.Obj.Pkg() != f.Pkg() {
			continue
		}
		info := fd.Pkg.TypesInfo
		ast.Inspect(fd.Decl.Body, func(n ast.Node) bool {
			switch x := n.(type) {
			case *ast.AssignStmt:
				for i, l := range x.Lhs {
					if core.FieldOf(info, l) == f && i < len(x.Rhs) && len(x.Lhs) == len(x.Rhs) {
						if z.expr(fd, x.Rhs[i], depth+1) {
							res = true
						}
					}
				}
			case *ast.KeyValueExpr:
				if id, ok := x.Key.(*ast.Ident); ok && info.Uses[id] == types.Object(f) {
					if z.expr(fd, x.Value, depth+1) {
						res = true
					}
				}
			}
			return true
		})
	}
	if res {
		z.memo[f] = 1
	} else {
		z.memo[f] = 2
	}
	return res
}

// accumulatorRule: every self-accumulation whose accumulator is seeded with a
// currency zero raises its precision to the addend's first; otherwise each
// addend is rounded to the currency's decimals when it is added, which moves
// the rounding point and makes the sum depend on nothing but luck.
func accumulatorRule(c *core.Ctx, rule string, pkgs []string) {
	p := c.P
	z := &zeroSeed{p: p, memo: map[types.Object]int{}}
	n := 0
	for _, rel := range pkgs {
		pk := p.Pkg(rel)
		if pk == nil {
			c.Ob(rule, "UNRESOLVED:"+rel, token.NoPos, false, "package not loaded")
			continue
		}
		for _, fd := range p.Funcs(pk) {
			info := fd.Pkg.TypesInfo
			accs := FindAccums(p, fd)
			for i, a := range accs {
				// seed of the accumulator
				dest := ast.Unparen(a.Dest)
				if st, ok := dest.(*ast.StarExpr); ok {
					dest = st.X
				}
				seeded := z.expr(fd, dest, 0)
				if !seeded {
					continue
				}
				n++
				key := fmt.Sprintf("%s#%s%d:%s", fd.Name(), strings.ToLower(a.Op), i+1, types.ExprString(a.Dest))
				ok := a.Matched
				how := a.How
				if !ok && !a.Reversed {
					// idiom: matched earlier in the same iteration against a sibling of the addend (same root object)
					if why := matchedAgainstSibling(info, fd, a); why != "" {
						ok, how = true, why
					}
				}
				if ok {
					c.Ob(rule, key, a.Assign.Pos(), true, "")
					c.Note("%s: %s", key, how)
					continue
				}
				if a.Reversed {
					c.Ob(rule, key, a.Assign.Pos(), false,
						fmt.Sprintf("%s adds the running sum to the addend (%s.Add(%s)) instead of the addend to the sum: Amount.Add keeps the receiver's exponent, so the sum silently takes each addend's precision and the precision chosen for the sum (rounding rule) is lost", fd.Name(), types.ExprString(a.Addend), types.ExprString(a.Dest)))
					continue
				}
				c.Ob(rule, key, a.Assign.Pos(), false,
					fmt.Sprintf("%s accumulates %s into a sum seeded with the currency's zero without first raising the sum's precision to the addend's (MatchPrecision): every addend is rounded to the currency's decimals when added — a rounding point moved into the middle of the calculation, and a result that depends on row order", fd.Name(), types.ExprString(a.Addend)))
			}
		}
	}
	c.Extra(rule+"_zero_seeded_accumulations", n)
}

// matchedAgainstSibling: an earlier statement of the same loop iteration
// matched this accumulator against another field of the same object the
// addend belongs to (e.g. the category amount before its surcharge).
func matchedAgainstSibling(info *types.Info, fd *core.FuncDecl, a Accum) string {
	addRoot := core.RootVar(info, a.Addend)
	if addRoot == nil {
		return ""
	}
	// the enclosing loop body
	var loopBody *ast.BlockStmt
	ast.Inspect(fd.Decl.Body, func(n ast.Node) bool {
		switch l := n.(type) {
		case *ast.RangeStmt:
			if l.Body.Pos() <= a.Assign.Pos() && a.Assign.End() <= l.Body.End() {
				loopBody = l.Body
			}
		case *ast.ForStmt:
			if l.Body.Pos() <= a.Assign.Pos() && a.Assign.End() <= l.Body.End() {
				loopBody = l.Body
			}
		}
		return true
	})
	if loopBody == nil {
		return ""
	}
	res := ""
	ast.Inspect(loopBody, func(n ast.Node) bool {
		as, ok := n.(*ast.AssignStmt)
		if !ok || as.Pos() >= a.Assign.Pos() || len(as.Lhs) != 1 || len(as.Rhs) != 1 || !sameLoc(info, as.Lhs[0], a.Dest) {
			return true
		}
		// the matching call: the whole right-hand side, or the receiver chain inside it
		// (`t.Sum = match(rr, t.Sum, x).Subtract(x)`)
		ast.Inspect(as.Rhs[0], func(m ast.Node) bool {
			call, ok := m.(*ast.CallExpr)
			if !ok {
				return true
			}
			fn := core.Callee(info, call)
			var other, subject ast.Expr
			if isAmountMethod(fn, "MatchPrecision") && len(call.Args) == 1 {
				other, subject = call.Args[0], core.RecvExpr(call)
			} else if fn != nil && core.InModule(fn.Pkg()) && len(call.Args) == 3 && !isAmountMethod(fn, fn.Name()) {
				other, subject = call.Args[2], call.Args[1]
			}
			if other != nil && subject != nil && sameLoc(info, subject, a.Dest) && core.RootVar(info, other) == addRoot {
				res = "matched earlier in the same iteration against " + types.ExprString(other) + " of the same object"
			}
			return true
		})
		return true
	})
	return res
}
