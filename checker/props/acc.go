package props

import (
	"go/ast"
	"go/token"
	"go/types"

	"goblcheck/core"
)

// Accum is a self-accumulation L = L.Add(Y) / L = L.Subtract(Y) on num.Amount.
type Accum struct {
	FD      *core.FuncDecl
	Assign  *ast.AssignStmt
	Call    *ast.CallExpr
	Op      string
	Dest    ast.Expr
	Addend  ast.Expr
	Matched bool
	How     string
}

func isAmountMethod(fn *types.Func, names ...string) bool {
	if fn == nil {
		return false
	}
	r := core.RecvNamed(fn)
	if r == nil || r.Obj().Pkg() == nil || r.Obj().Pkg().Path() != core.ModPath+"/num" || r.Obj().Name() != "Amount" {
		return false
	}
	for _, n := range names {
		if fn.Name() == n {
			return true
		}
	}
	return len(names) == 0
}

func sameLoc(info *types.Info, a, b ast.Expr) bool {
	a, b = ast.Unparen(a), ast.Unparen(b)
	if s, ok := a.(*ast.StarExpr); ok {
		a = ast.Unparen(s.X)
	}
	if s, ok := b.(*ast.StarExpr); ok {
		b = ast.Unparen(s.X)
	}
	ra, pa := core.FieldPath(info, a)
	rb, pb := core.FieldPath(info, b)
	return ra != nil && ra == rb && pa == pb
}

// isMatchWrapper recognises a module function f(…, a, b Amount) Amount all of
// whose returns are `a` or `a.MatchPrecision(b)`; it returns the indices of a, b.
func isMatchWrapper(p *core.Program, fn *types.Func) (int, int, bool) {
	fd := p.DeclOf(fn)
	if fd == nil {
		return 0, 0, false
	}
	sig := fn.Type().(*types.Signature)
	if sig.Results().Len() != 1 || core.TypeString(sig.Results().At(0).Type()) != "num.Amount" {
		return 0, 0, false
	}
	info := fd.Pkg.TypesInfo
	ai, bi := -1, -1
	ok := true
	n := 0
	ast.Inspect(fd.Decl.Body, func(m ast.Node) bool {
		r, isR := m.(*ast.ReturnStmt)
		if !isR || len(r.Results) != 1 {
			return true
		}
		n++
		e := ast.Unparen(r.Results[0])
		idx := func(x ast.Expr) int {
			v := core.VarOf(info, x)
			for i := 0; i < sig.Params().Len(); i++ {
				if sig.Params().At(i) == v {
					return i
				}
			}
			return -1
		}
		if cl, isC := e.(*ast.CallExpr); isC {
			if isAmountMethod(core.Callee(info, cl), "MatchPrecision") && len(cl.Args) == 1 {
				a, b := idx(core.RecvExpr(cl)), idx(cl.Args[0])
				if a < 0 || b < 0 || (ai >= 0 && ai != a) {
					ok = false
				}
				ai, bi = a, b
				return true
			}
			ok = false
			return true
		}
		a := idx(e)
		if a < 0 || (ai >= 0 && ai != a) {
			ok = false
		}
		if ai < 0 {
			ai = a
		}
		return true
	})
	if !ok || n == 0 || ai < 0 || bi < 0 {
		return 0, 0, false
	}
	return ai, bi, true
}

func sameExpr(a, b ast.Expr) bool {
	return types.ExprString(ast.Unparen(a)) == types.ExprString(ast.Unparen(b))
}

// FindAccums lists the self-accumulations of a function and decides for each
// whether the accumulator's precision is raised to the addend's first.
func FindAccums(p *core.Program, fd *core.FuncDecl) []Accum {
	info := fd.Pkg.TypesInfo
	var out []Accum
	var visit func(list []ast.Stmt)
	visit = func(list []ast.Stmt) {
		for i, s := range list {
			as, ok := s.(*ast.AssignStmt)
			if !ok || len(as.Lhs) != 1 || len(as.Rhs) != 1 {
				continue
			}
			call, ok := ast.Unparen(as.Rhs[0]).(*ast.CallExpr)
			if !ok || len(call.Args) != 1 {
				continue
			}
			fn := core.Callee(info, call)
			if !isAmountMethod(fn, "Add", "Subtract") {
				continue
			}
			recv := core.RecvExpr(call)
			dest := as.Lhs[0]
			acc := Accum{FD: fd, Assign: as, Call: call, Op: fn.Name(), Dest: dest, Addend: call.Args[0]}
			matchedRecv := false
			// receiver is X.MatchPrecision(Y)
			if rc, ok := ast.Unparen(recv).(*ast.CallExpr); ok && isAmountMethod(core.Callee(info, rc), "MatchPrecision") && len(rc.Args) == 1 {
				if sameExpr(rc.Args[0], call.Args[0]) {
					matchedRecv = true
				}
				recv = core.RecvExpr(rc)
			}
			self := sameLoc(info, dest, recv)
			// pointer idiom: tmp := P.Add(a); P = &tmp
			if !self && as.Tok == token.DEFINE && i+1 < len(list) {
				if nx, ok := list[i+1].(*ast.AssignStmt); ok && len(nx.Lhs) == 1 && len(nx.Rhs) == 1 {
					if u, ok := ast.Unparen(nx.Rhs[0]).(*ast.UnaryExpr); ok && u.Op == token.AND && core.VarOf(info, u.X) == core.VarOf(info, dest) && sameLoc(info, nx.Lhs[0], recv) {
						self = true
						acc.Dest = nx.Lhs[0]
					}
				}
			}
			if !self {
				continue
			}
			switch {
			case matchedRecv:
				acc.Matched, acc.How = true, "receiver is MatchPrecision(addend)"
			case i > 0:
				if ps, ok := list[i-1].(*ast.AssignStmt); ok && len(ps.Lhs) == 1 && len(ps.Rhs) == 1 && sameLoc(info, ps.Lhs[0], recv) {
					if pc, ok := ast.Unparen(ps.Rhs[0]).(*ast.CallExpr); ok {
						pf := core.Callee(info, pc)
						if isAmountMethod(pf, "MatchPrecision") && len(pc.Args) == 1 && sameLoc(info, core.RecvExpr(pc), recv) && sameExpr(pc.Args[0], call.Args[0]) {
							acc.Matched, acc.How = true, "preceded by L = L.MatchPrecision(addend)"
						} else if pf != nil && core.InModule(pf.Pkg()) {
							if ai, bi, ok := isMatchWrapper(p, pf); ok && ai < len(pc.Args) && bi < len(pc.Args) && sameLoc(info, pc.Args[ai], recv) && sameExpr(pc.Args[bi], call.Args[0]) {
								acc.Matched, acc.How = true, "preceded by L = "+pf.Name()+"(…, L, addend)"
							}
						}
					}
				}
			}
			out = append(out, acc)
		}
	}
	ast.Inspect(fd.Decl.Body, func(n ast.Node) bool {
		switch b := n.(type) {
		case *ast.BlockStmt:
			visit(b.List)
		case *ast.CaseClause:
			visit(b.Body)
		}
		return true
	})
	return out
}
