package props

import (
	"fmt"
	"go/ast"
	"go/types"

	"goblcheck/core"
)

// deadRulesAfterSkip: validation.Skip ends the evaluation of a rule list: a rule
// written after an unconditional Skip in the same validation.Field(...) list
// (or Each(...) / When(...) list) never runs. Every such list of the module is
// read; the rule fails for a list in which something follows the Skip.
func deadRulesAfterSkip(c *core.Ctx, rule, title string) {
	p := c.P
	c.Rule(rule, title, 20)
	const vpkg = "github.com/invopop/validation"
	nSkip := 0
	for _, fd := range p.AllFuncs() {
		if p.IsTestFile(fd.Decl.Pos()) || fd.Decl.Body == nil {
			continue
		}
		info := fd.Pkg.TypesInfo
		k := 0
		ast.Inspect(fd.Decl.Body, func(n ast.Node) bool {
			call, ok := n.(*ast.CallExpr)
			if !ok {
				return true
			}
			fn := core.Callee(info, call)
			if fn == nil || fn.Pkg() == nil || fn.Pkg().Path() != vpkg {
				return true
			}
			first := -1
			switch fn.Name() {
			case "Field", "When":
				first = 1
			case "Each":
				first = 0
			case "Validate":
				if fn.Type().(*types.Signature).Recv() == nil {
					first = 1
				}
			case "ValidateWithContext":
				if fn.Type().(*types.Signature).Recv() == nil {
					first = 2
				}
			}
			if first < 0 || len(call.Args) <= first {
				return true
			}
			rules := call.Args[first:]
			for i, r := range rules {
				if !core.IsValidationVar(info, r, "Skip") {
					continue
				}
				nSkip++
				k++
				key := fmt.Sprintf("%s#skip%d", fd.Name(), k)
				if i == len(rules)-1 {
					c.Ob(rule, key, r.Pos(), true, "")
				} else {
					c.Ob(rule, key, rules[i+1].Pos(), false, fmt.Sprintf("%s follows validation.Skip in the same rule list (%s): Skip ends the evaluation of the list, so this rule — and the value's own validation — never runs", types.ExprString(rules[i+1]), p.Rel(call.Pos())))
				}
				break
			}
			return true
		})
	}
	c.Extra(rule+"_rule_lists_ending_in_skip", nSkip)
}
