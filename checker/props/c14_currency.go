package props

import (
	"os"
	"fmt"
	"go/ast"
	"go/token"
	"go/types"
	"sort"
	"strings"

	"goblcheck/core"
)

// Unknown currency codes: currency.Code.Def() / currency.Get return nil for a
// code that is not defined. A dereference of that result requires the code to
// be known. The requirement is propagated from the dereference to the code's
// source: a constant, a field of a regime definition, a value checked on this
// path, equality with a valid code, a parameter (the requirement moves to every
// caller), or a document field (an input: unguarded → reported).

type curReq struct {
	params map[int]string // parameter index -> why (path to the dereference)
}

type curAnalysis struct {
	c      *core.Ctx
	p      *core.Program
	req    map[*types.Func]*curReq
	fields map[*types.Var]string // struct fields that must hold a known code -> why
	report map[string]bool
	results map[string]*curResult
	n      int
	// per-program cache (the thorough tier analyses several programs in one process)
	docTypes map[*types.Named]bool
}

func isCurrencyCode(t types.Type) bool {
	return t != nil && core.TypeString(t) == "currency.Code"
}

// defCallOperand returns X for X.Def() / currency.Get(X).
func defCallOperand(info *types.Info, call *ast.CallExpr) ast.Expr {
	fn := core.Callee(info, call)
	if fn == nil || fn.Pkg() == nil || fn.Pkg().Path() != core.ModPath+"/currency" {
		return nil
	}
	if fn.Name() == "Def" && core.RecvNamed(fn) != nil && core.RecvNamed(fn).Obj().Name() == "Code" {
		return core.RecvExpr(call)
	}
	if fn.Name() == "Get" && core.RecvNamed(fn) == nil && len(call.Args) == 1 {
		return call.Args[0]
	}
	return nil
}

func c14CurrencyImpl(c *core.Ctx) {
	a := &curAnalysis{c: c, p: c.P, req: map[*types.Func]*curReq{}, fields: map[*types.Var]string{}, report: map[string]bool{}}
	all := c.P.AllFuncs()
	// pass 1: dereference sites
	for _, fd := range all {
		a.derefSites(fd)
	}
	// pass 2: propagate parameter requirements to callers, to a fixpoint
	for changed := true; changed; {
		changed = false
		for _, fd := range all {
			info := fd.Pkg.TypesInfo
			ast.Inspect(fd.Decl.Body, func(n ast.Node) bool {
				call, ok := n.(*ast.CallExpr)
				if !ok {
					return true
				}
				fn := core.Callee(info, call)
				if fn == nil {
					return true
				}
				r := a.req[fn.Origin()]
				if r == nil {
					return true
				}
				for i, why := range r.params {
					var arg ast.Expr
					if i == -1 {
						arg = core.RecvExpr(call)
					} else if i < len(call.Args) {
						arg = call.Args[i]
					}
					if arg == nil {
						continue
					}
					if a.need(fd, call, arg, core.FuncName(fn)+" → "+why, 0) {
						changed = true
					}
				}
				return true
			})
		}
	}
	// pass 3: field requirements: every composite literal of the struct must fill the field from a valid source
	var fkeys []*types.Var
	for f := range a.fields {
		fkeys = append(fkeys, f)
	}
	sort.Slice(fkeys, func(i, j int) bool { return fkeys[i].Pos() < fkeys[j].Pos() })
	for _, f := range fkeys {
		a.fieldSources(f, a.fields[f])
	}
	a.flush()
	c.Extra("currency_deref_sites", a.n)
}

func (a *curAnalysis) derefSites(fd *core.FuncDecl) {
	info := fd.Pkg.TypesInfo
	ld := core.NewLocalDefs(info, fd.Decl.Body)
	ast.Inspect(fd.Decl.Body, func(n ast.Node) bool {
		se, ok := n.(*ast.SelectorExpr)
		if !ok {
			return true
		}
		x := ast.Unparen(se.X)
		var call *ast.CallExpr
		if cl, ok := x.(*ast.CallExpr); ok {
			call = cl
		} else if v := core.VarOf(info, x); v != nil && core.TypeString(v.Type()) == "*currency.Def" {
			// cd := cur.Def(); cd.Field — unless cd is nil-tested on this path
			if d, ok := ld.Before(v, se.Pos()); ok && d.RHS != nil {
				if cl, ok := ast.Unparen(d.RHS).(*ast.CallExpr); ok {
					ff := core.NewFuncFlow(fd)
					guarded := false
					if node := ff.Flow.EnclosingNode(se); node != nil {
						for leaf, val := range ff.Flow.CondsAt(node) {
							g := core.GuardOf(info, leaf, ff.Errs)
							if (g.Kind == "nil" || g.Kind == "err") && core.VarOf(info, g.X) == v && val == g.Neg {
								guarded = true
							}
						}
					}
					if !guarded {
						call = cl
					}
				}
			}
		}
		if call == nil {
			return true
		}
		op := defCallOperand(info, call)
		if op == nil {
			return true
		}
		a.n++
		a.need(fd, se, op, fmt.Sprintf("%s dereferences %s at %s", fd.Name(), types.ExprString(call), a.p.Rel(se.Pos())), 0)
		return true
	})
}

// need establishes that expression e (a currency code) is known at node `at`
// inside fd; it returns true when a new requirement was recorded.
func (a *curAnalysis) need(fd *core.FuncDecl, at ast.Node, e ast.Expr, why string, depth int) bool {
	info := fd.Pkg.TypesInfo
	e = ast.Unparen(e)
	if depth > 6 {
		a.finding(fd, at, e, why, "source chain too long to decide")
		return false
	}
	// constant
	if tv, ok := info.Types[e]; ok && tv.Value != nil {
		return false
	}
	// conversion currency.Code(x) of a constant handled above; of anything else: input
	// guarded on this path?
	if a.guardedAt(fd, at, e) {
		if se, ok := e.(*ast.SelectorExpr); ok {
			if f := core.FieldOf(info, se); f != nil {
				if owner := fieldOwner(info, se); owner != nil && a.isDocumentType(owner) {
					a.checked(fd, at, e)
				}
			}
		}
		return false
	}
	switch x := e.(type) {
	case *ast.Ident:
		v := core.VarOf(info, x)
		if v == nil {
			break
		}
		sig := fd.Obj.Type().(*types.Signature)
		for i := 0; i < sig.Params().Len(); i++ {
			if sig.Params().At(i) == v {
				ch := a.addReq(fd.Obj, i, why)
				// a parameter that is re-assigned inside the function: each new value must be valid too
				ld := core.NewLocalDefs(info, fd.Decl.Body)
				for _, d := range ld.All(v) {
					if d.RHS != nil && (d.Pos < at.Pos() || insideLoopWith(fd.Decl.Body, d.Stmt, at)) {
						if a.need(fd, d.Stmt, d.RHS, why, depth+1) {
							ch = true
						}
					}
				}
				return ch
			}
		}
		if v.Parent() != nil && v.Pkg() != nil && v.Parent() == v.Pkg().Scope() {
			return false // package-level constant-like var (currency.EUR ...)
		}
		// local: every definition must be a valid source
		ld := core.NewLocalDefs(info, fd.Decl.Body)
		defs := ld.All(v)
		if len(defs) == 0 {
			a.finding(fd, at, e, why, "no definition found")
			return false
		}
		ch := false
		repaired := a.repairedBefore(fd, v, at)
		for _, d := range defs {
			if d.Pos >= at.Pos() || d.RHS == nil {
				continue
			}
			if repaired.IsValid() && d.Pos < repaired {
				continue // whatever it held, it was checked and, where unknown, replaced before this point
			}
			if _, isRange := d.Stmt.(*ast.RangeStmt); isRange {
				a.finding(fd, at, e, why, "code comes from a range element")
				continue
			}
			if a.need(fd, d.Stmt, d.RHS, why, depth+1) {
				ch = true
			}
		}
		return ch
	case *ast.SelectorExpr:
		f := core.FieldOf(info, x)
		if f == nil {
			// qualified constant/var
			return false
		}
		owner := fieldOwner(info, x)
		if owner != nil && definitionType(owner) {
			return false // fields of regime/addon/currency definitions are validated at registration
		}
		root := core.RootVar(info, x)
		sig := fd.Obj.Type().(*types.Signature)
		// a field of the receiver or of a parameter of a non-document helper struct: field requirement
		if owner != nil && !a.isDocumentType(owner) {
			_ = root
			_ = sig
			if _, ok := a.fields[f]; !ok {
				a.fields[f] = why
				return true
			}
			return false
		}
		a.finding(fd, at, e, why, "document field, not checked to be a known currency on this path")
		return false
	case *ast.CallExpr:
		// conversion
		if tv, ok := info.Types[x.Fun]; ok && tv.IsType() && len(x.Args) == 1 {
			return a.need(fd, at, x.Args[0], why, depth+1)
		}
		// checked getter idiom: v := doc.getX() after `if doc.getX().Def() == nil { return | doc.setX(valid) }`
		if a.checkedGetter(fd, at, x) {
			a.checked(fd, at, e)
			return false
		}
		// established getter: every path to here passes a statement where R.getX() (or a local
		// holding it) is known to have a definition, or a call R.setX(<definition field>)
		if a.getterEstablished(fd, at, x) {
			a.checked(fd, at, e)
			return false
		}
		// set-then-get: `doc.setX(v); … = doc.getX()` as consecutive statements: the value is v
		if arg := setJustBefore(info, fd.Decl.Body, at, x); arg != nil {
			return a.need(fd, at, arg, why, depth+1)
		}
		// a function returning a code: all its returns must be valid sources
		if fn := core.Callee(info, x); fn != nil && core.InModule(fn.Pkg()) {
			if cfd := a.p.DeclOf(fn); cfd != nil {
				okAll := true
				ast.Inspect(cfd.Decl.Body, func(n ast.Node) bool {
					if r, ok := n.(*ast.ReturnStmt); ok && len(r.Results) == 1 {
						cinfo := cfd.Pkg.TypesInfo
						re := ast.Unparen(r.Results[0])
						if tv, ok := cinfo.Types[re]; ok && tv.Value != nil {
							return true
						}
						if se, ok := re.(*ast.SelectorExpr); ok {
							if o := fieldOwner(cinfo, se); o != nil && definitionType(o) {
								return true
							}
						}
						okAll = false
					}
					return true
				})
				if okAll {
					return false
				}
			}
		}
		a.finding(fd, at, e, why, "result of "+types.ExprString(x.Fun)+" is not known to be a defined currency")
		return false
	}
	a.finding(fd, at, e, why, "source not recognised")
	return false
}

func (a *curAnalysis) addReq(fn *types.Func, i int, why string) bool {
	r := a.req[fn]
	if r == nil {
		r = &curReq{params: map[int]string{}}
		a.req[fn] = r
	}
	if _, ok := r.params[i]; ok {
		return false
	}
	r.params[i] = why
	return true
}

func fieldOwner(info *types.Info, se *ast.SelectorExpr) *types.Named {
	t := info.TypeOf(se.X)
	if t == nil {
		return nil
	}
	n, _ := core.StructOf(t)
	// embedded promotion: find the struct that declares the field
	if sel := info.Selections[se]; sel != nil && len(sel.Index()) > 1 {
		cur := t
		for _, idx := range sel.Index()[:len(sel.Index())-1] {
			_, st := core.StructOf(cur)
			if st == nil {
				break
			}
			cur = st.Field(idx).Type()
		}
		n, _ = core.StructOf(cur)
	}
	return n
}

func definitionType(n *types.Named) bool {
	switch core.TypeName(n) {
	case "tax.RegimeDef", "tax.AddonDef", "currency.Def", "tax.CatalogueDef":
		return true
	}
	return false
}

func (a *curAnalysis) isDocumentType(n *types.Named) bool {
	if a.docTypes == nil {
		a.docTypes = map[*types.Named]bool{}
		order, _, _ := docClosure(a.c)
		for _, t := range order {
			a.docTypes[t] = true
		}
	}
	return a.docTypes[n]
}

// guardedAt: on every path to `at`, e was found to be a defined currency:
// `e.Def() != nil`, `currency.Get(e) != nil`, or `e == other` with other valid.
func (a *curAnalysis) guardedAt(fd *core.FuncDecl, at ast.Node, e ast.Expr) bool {
	info := fd.Pkg.TypesInfo
	ff := core.NewFuncFlow(fd)
	node := ff.Flow.EnclosingNode(at)
	if node == nil {
		return false
	}
	validOther := func(other ast.Expr) bool {
		if !isCurrencyCode(info.TypeOf(other)) {
			return false
		}
		if tv, ok := info.Types[other]; ok && tv.Value != nil {
			return tv.Value.ExactString() != `""`
		}
		if v := core.VarOf(info, other); v != nil {
			sig := fd.Obj.Type().(*types.Signature)
			for i := 0; i < sig.Params().Len(); i++ {
				if sig.Params().At(i) == v {
					// equal to a parameter: valid iff the parameter is — record the requirement
					a.addReq(fd.Obj, i, "equality guard in "+fd.Name())
					return true
				}
			}
		}
		return false
	}
	for leaf, val := range ff.Flow.CondsAt(node) {
		be, ok := ast.Unparen(leaf).(*ast.BinaryExpr)
		if !ok || (be.Op != token.EQL && be.Op != token.NEQ) {
			continue
		}
		x, y := ast.Unparen(be.X), ast.Unparen(be.Y)
		if core.IsNil(info, x) {
			x, y = y, x
		}
		if core.IsNil(info, y) {
			if cl, ok := x.(*ast.CallExpr); ok {
				if op := defCallOperand(info, cl); op != nil && sameExpr(op, e) {
					if (be.Op == token.NEQ && val) || (be.Op == token.EQL && !val) {
						return true
					}
				}
			}
			continue
		}
		// equality with another code that is a parameter or constant
		if (be.Op == token.EQL && val) || (be.Op == token.NEQ && !val) {
			var other ast.Expr
			if sameExpr(x, e) {
				other = y
			} else if sameExpr(y, e) {
				other = x
			}
			if other != nil && validOther(other) {
				return true
			}
		}
	}
	// the same equality as the result condition of a search helper: e is x.F…, x := find(…, c, …)
	// was found non-nil, and find returns only nil or an element whose F… equals its parameter c
	if other := a.searchPost(fd, ff, node, e); other != nil && validOther(other) {
		return true
	}
	return false
}

// searchPost: e is a field path x.F… of a local x defined once as the result of
// a module function, x is known non-nil at node, and every return of that
// function is nil or a variable r at a point where r.F… == <parameter i> holds.
// The result is the i-th argument of the call: e equals it.
func (a *curAnalysis) searchPost(fd *core.FuncDecl, ff *core.FuncFlow, node ast.Node, e ast.Expr) ast.Expr {
	info := fd.Pkg.TypesInfo
	var path []*types.Var
	x := ast.Unparen(e)
	for {
		se, ok := x.(*ast.SelectorExpr)
		if !ok {
			break
		}
		f := core.FieldOf(info, se)
		if f == nil {
			return nil
		}
		path = append([]*types.Var{f}, path...)
		x = ast.Unparen(se.X)
	}
	root := core.VarOf(info, x)
	if root == nil || len(path) == 0 {
		return nil
	}
	if _, isPtr := root.Type().Underlying().(*types.Pointer); !isPtr {
		return nil
	}
	defs := core.NewLocalDefs(info, fd.Decl.Body).All(root)
	if len(defs) != 1 || defs[0].RHS == nil || defs[0].N != 1 {
		return nil
	}
	call, ok := ast.Unparen(defs[0].RHS).(*ast.CallExpr)
	if !ok {
		return nil
	}
	nonNil := false
	for leaf, val := range ff.Flow.CondsAt(node) {
		g := core.GuardOf(info, leaf, ff.Errs)
		if (g.Kind == "nil" || g.Kind == "err") && core.VarOf(info, g.X) == root && val == g.Neg {
			nonNil = true
		}
	}
	if !nonNil {
		return nil
	}
	fn := core.Callee(info, call)
	if fn == nil || !core.InModule(fn.Pkg()) {
		return nil
	}
	cfd := a.p.DeclOf(fn)
	if cfd == nil {
		return nil
	}
	cinfo := cfd.Pkg.TypesInfo
	cff := core.NewFuncFlow(cfd)
	sig := fn.Type().(*types.Signature)
	samePath := func(y ast.Expr, rv *types.Var) bool {
		y = ast.Unparen(y)
		for i := len(path) - 1; i >= 0; i-- {
			se, ok := y.(*ast.SelectorExpr)
			if !ok || core.FieldOf(cinfo, se) != path[i] {
				return false
			}
			y = ast.Unparen(se.X)
		}
		return core.VarOf(cinfo, y) == rv
	}
	param, bad, n := -1, false, 0
	ast.Inspect(cfd.Decl.Body, func(m ast.Node) bool {
		if _, isLit := m.(*ast.FuncLit); isLit {
			return false
		}
		r, isR := m.(*ast.ReturnStmt)
		if !isR {
			return true
		}
		if len(r.Results) != 1 {
			bad = true
			return true
		}
		if core.IsNil(cinfo, r.Results[0]) {
			return true
		}
		rv := core.VarOf(cinfo, r.Results[0])
		if rv == nil {
			bad = true
			return true
		}
		n++
		found := -1
		for leaf, val := range cff.Flow.CondsAt(cff.Flow.EnclosingNode(r)) {
			be, ok := ast.Unparen(leaf).(*ast.BinaryExpr)
			if !ok || !((be.Op == token.EQL && val) || (be.Op == token.NEQ && !val)) {
				continue
			}
			l, rr := be.X, be.Y
			if samePath(rr, rv) {
				l, rr = rr, l
			}
			if !samePath(l, rv) {
				continue
			}
			if pv := core.VarOf(cinfo, rr); pv != nil {
				for i := 0; i < sig.Params().Len(); i++ {
					if sig.Params().At(i) == pv {
						found = i
					}
				}
			}
		}
		if found < 0 || (param >= 0 && param != found) {
			bad = true
		}
		param = found
		return true
	})
	if bad || n == 0 || param < 0 || param >= len(call.Args) {
		return nil
	}
	// the parameter must not be reassigned in the helper
	for _, d := range core.NewLocalDefs(cinfo, cfd.Decl.Body).All(sig.Params().At(param)) {
		_ = d
		return nil
	}
	return call.Args[param]
}

// checkedGetter recognises bill.calculate's idiom.
func (a *curAnalysis) checkedGetter(fd *core.FuncDecl, at ast.Node, get *ast.CallExpr) bool {
	info := fd.Pkg.TypesInfo
	if len(get.Args) != 0 {
		return false
	}
	gs := types.ExprString(get)
	ok := false
	for _, s := range fd.Decl.Body.List {
		if s.Pos() >= at.Pos() {
			break
		}
		is, isIf := s.(*ast.IfStmt)
		if !isIf {
			continue
		}
		// condition contains `<get>.Def() == nil` as a disjunct
		found := false
		ast.Inspect(is.Cond, func(n ast.Node) bool {
			be, isB := n.(*ast.BinaryExpr)
			if !isB || be.Op != token.EQL {
				return true
			}
			x, y := ast.Unparen(be.X), ast.Unparen(be.Y)
			if core.IsNil(info, x) {
				x, y = y, x
			}
			if cl, isC := x.(*ast.CallExpr); isC && core.IsNil(info, y) {
				if op := defCallOperand(info, cl); op != nil && types.ExprString(ast.Unparen(op)) == gs {
					found = true
				}
			}
			return true
		})
		if !found || !onlyDisjunctions(is.Cond) {
			continue
		}
		// body: ends with return, or calls a setter on the same receiver with a valid source
		if len(is.Body.List) == 0 {
			continue
		}
		last := is.Body.List[len(is.Body.List)-1]
		switch l := last.(type) {
		case *ast.ReturnStmt:
			ok = true
		case *ast.ExprStmt:
			if cl, isC := l.X.(*ast.CallExpr); isC && len(cl.Args) == 1 {
				if sameExpr(core.RecvExpr(cl), core.RecvExpr(get)) && strings.HasPrefix(strings.ToLower(core.Callee(info, cl).Name()), "set") {
					// the value set must itself be valid: a definition field
					if se, isS := ast.Unparen(cl.Args[0]).(*ast.SelectorExpr); isS {
						if o := fieldOwner(info, se); o != nil && definitionType(o) {
							ok = true
						}
					}
				}
			}
		}
	}
	return ok
}

func onlyDisjunctions(e ast.Expr) bool {
	e = ast.Unparen(e)
	if be, ok := e.(*ast.BinaryExpr); ok {
		if be.Op == token.LOR {
			return onlyDisjunctions(be.X) && onlyDisjunctions(be.Y)
		}
		if be.Op == token.LAND {
			return false
		}
	}
	return true
}

type curResult struct {
	pos token.Pos
	ok  bool
	msg string
}

func (a *curAnalysis) finding(fd *core.FuncDecl, at ast.Node, e ast.Expr, why, what string) {
	key := fmt.Sprintf("%s#%s", fd.Name(), types.ExprString(e))
	if a.report[key] {
		return
	}
	a.report[key] = true
	if a.results == nil {
		a.results = map[string]*curResult{}
	}
	if reason, ok := currencySuppressed[key]; ok {
		a.results[key] = &curResult{at.Pos(), true, ""}
		a.c.Note("suppressed %s: %s", key, reason)
		return
	}
	a.results[key] = &curResult{at.Pos(), false,
		fmt.Sprintf("currency code %s: %s; it reaches a nil dereference for an unknown code: %s", types.ExprString(e), what, why)}
}

// checked records that a document field was found guarded where it is needed: the
// obligation exists (and holds) wherever the same field could have been reported.
func (a *curAnalysis) checked(fd *core.FuncDecl, at ast.Node, e ast.Expr) {
	key := fmt.Sprintf("%s#%s", fd.Name(), types.ExprString(e))
	if a.results == nil {
		a.results = map[string]*curResult{}
	}
	if _, has := a.results[key]; !has {
		a.results[key] = &curResult{at.Pos(), true, ""}
	}
}

func (a *curAnalysis) flush() {
	var keys []string
	for k := range a.results {
		keys = append(keys, k)
	}
	sort.Strings(keys)
	for _, k := range keys {
		r := a.results[k]
		a.c.Ob("C14-R2", k, r.pos, r.ok, r.msg)
	}
}

// currencySuppressed: one named construct each, with the invariant relied on.
var currencySuppressed = map[string]string{
	"currency.(*ExchangeRate).Convert#er.To": "the only module caller, currency.Convert, obtains the rate from MatchExchangeRate(rates, from, to), which returns a rate whose To equals the requested target; the target is the document currency, itself required to be known (requirement on currency.Convert's `to` parameter is checked at its call sites by this rule through bill.calculateLineItemPrice / PaymentLine.calculate)",
}

// fieldSources checks every composite literal that builds the struct owning f.
func (a *curAnalysis) fieldSources(f *types.Var, why string) {
	n := 0
	for _, fd := range a.p.AllFuncs() {
		info := fd.Pkg.TypesInfo
		ast.Inspect(fd.Decl.Body, func(m ast.Node) bool {
			cl, ok := m.(*ast.CompositeLit)
			if !ok {
				return true
			}
			_, st := core.StructOf(info.TypeOf(cl))
			if st == nil {
				return true
			}
			has := false
			for i := 0; i < st.NumFields(); i++ {
				if st.Field(i) == f {
					has = true
				}
			}
			if !has {
				return true
			}
			n++
			set := false
			for _, el := range cl.Elts {
				if kv, ok := el.(*ast.KeyValueExpr); ok {
					if id, ok := kv.Key.(*ast.Ident); ok && id.Name == f.Name() {
						set = true
						a.need(fd, cl, kv.Value, "field "+f.Name()+" must hold a known currency: "+why, 0)
					}
				}
			}
			if !set {
				a.c.Ob("C14-R2", fmt.Sprintf("%s#literal-without-%s", fd.Name(), f.Name()), cl.Pos(), false, "literal leaves "+f.Name()+" empty although it is dereferenced: "+why)
			}
			return true
		})
	}
	owner := "?"
	a.c.Ob("C14-R2", "field:"+f.Name()+"@"+a.p.Rel(f.Pos()), f.Pos(), n > 0, "helper struct field that must hold a known currency is never built by a literal in the module (cannot decide its sources): "+why+owner)
}

// insideLoopWith reports whether a and b lie in the same loop body (so a
// textually later assignment can reach an earlier use on the next iteration).
func insideLoopWith(body ast.Node, a, b ast.Node) bool {
	found := false
	ast.Inspect(body, func(n ast.Node) bool {
		switch n.(type) {
		case *ast.ForStmt, *ast.RangeStmt:
			if n.Pos() <= a.Pos() && a.End() <= n.End() && n.Pos() <= b.Pos() && b.End() <= n.End() {
				found = true
			}
		}
		return true
	})
	return found
}

// repairedBefore recognises the check-or-replace idiom for a local code v:
//
//	if v == "" || v.Def() == nil { …; v = <new value>; … }      (no else)
//
// placed, in an enclosing block, before `at`. After it v is either the value
// that passed the test or the value assigned in the branch — so definitions
// before the statement need no justification; the one inside does (it is
// judged like any other definition). It returns the position of the statement.
func (a *curAnalysis) repairedBefore(fd *core.FuncDecl, v *types.Var, at ast.Node) token.Pos {
	info := fd.Pkg.TypesInfo
	var pos token.Pos
	ast.Inspect(fd.Decl.Body, func(n ast.Node) bool {
		is, ok := n.(*ast.IfStmt)
		if !ok || is.Else != nil || is.End() > at.Pos() {
			return true
		}
		// the condition's falsity must imply v.Def() != nil
		leaves := map[ast.Expr]bool{}
		core.DeriveCond(is.Cond, false, leaves)
		checked := false
		for l, val := range leaves {
			g := core.GuardOf(info, l, nil)
			if g.Kind != "nil" || g.Call == nil || val != false || g.Neg {
				continue
			}
			if fn := core.Callee(info, g.Call); fn != nil && fn.Name() == "Def" && core.VarOf(info, core.RecvExpr(g.Call)) == v {
				checked = true
			}
		}
		if !checked {
			return true
		}
		// every way through the branch re-assigns v at its top level, or leaves the function
		assigned := false
		for _, s := range is.Body.List {
			switch x := s.(type) {
			case *ast.AssignStmt:
				for _, l := range x.Lhs {
					if core.VarOf(info, l) == v {
						assigned = true
					}
				}
			}
		}
		if n := len(is.Body.List); n > 0 {
			if _, isRet := is.Body.List[n-1].(*ast.ReturnStmt); isRet {
				assigned = true
			}
		}
		if assigned && is.Pos() > pos {
			// must be in a block that encloses `at` (same or outer nesting): its end precedes at and
			// the enclosing block of the if contains at
			if blk := innermostBlock(fd.Decl.Body, is); blk != nil && blk.Pos() <= at.Pos() && at.End() <= blk.End() {
				pos = is.Pos()
			}
		}
		return true
	})
	return pos
}

// setJustBefore: get is `R.getN()` and the statement directly before the one
// containing `at`, in the same list, is `R.setN(arg)`: the argument.
func setJustBefore(info *types.Info, body *ast.BlockStmt, at ast.Node, get *ast.CallExpr) ast.Expr {
	gse, ok := ast.Unparen(get.Fun).(*ast.SelectorExpr)
	if !ok || len(get.Args) != 0 || !strings.HasPrefix(gse.Sel.Name, "get") {
		return nil
	}
	want := "set" + strings.TrimPrefix(gse.Sel.Name, "get")
	var res ast.Expr
	ast.Inspect(body, func(n ast.Node) bool {
		var list []ast.Stmt
		switch x := n.(type) {
		case *ast.BlockStmt:
			list = x.List
		case *ast.CaseClause:
			list = x.Body
		}
		for i, s := range list {
			if i == 0 || !(s.Pos() <= at.Pos() && at.End() <= s.End()) {
				continue
			}
			// the getter call must be in this very statement, not nested in a deeper list
			if _, isSimple := s.(*ast.AssignStmt); !isSimple {
				continue
			}
			es, ok := list[i-1].(*ast.ExprStmt)
			if !ok {
				continue
			}
			call, ok := ast.Unparen(es.X).(*ast.CallExpr)
			if !ok || len(call.Args) != 1 {
				continue
			}
			sse, ok := ast.Unparen(call.Fun).(*ast.SelectorExpr)
			if ok && sse.Sel.Name == want && sameExpr(sse.X, gse.X) {
				res = call.Args[0]
			}
		}
		return true
	})
	return res
}

// getterEstablished: get is `R.getN()`; every path from the entry to `at` goes
// through a statement at which `<g>.Def() != nil` is known for g = R.getN() or a
// local defined from it, or through a statement `R.setN(v)` with v a field of a
// definition; and no `R.setN(other)` exists in the function.
func (a *curAnalysis) getterEstablished(fd *core.FuncDecl, at ast.Node, get *ast.CallExpr) bool {
	info := fd.Pkg.TypesInfo
	gse, ok := ast.Unparen(get.Fun).(*ast.SelectorExpr)
	if !ok || len(get.Args) != 0 || !strings.HasPrefix(gse.Sel.Name, "get") {
		return false
	}
	setName := "set" + strings.TrimPrefix(gse.Sel.Name, "get")
	ff := core.NewFuncFlow(fd)
	ld := core.NewLocalDefs(info, fd.Decl.Body)
	isGet := func(e ast.Expr) bool {
		e = ast.Unparen(e)
		if v := core.VarOf(info, e); v != nil {
			ds := ld.All(v)
			if len(ds) != 1 || ds[0].RHS == nil || ds[0].N != 1 {
				return false
			}
			e = ast.Unparen(ds[0].RHS)
		}
		c, ok := e.(*ast.CallExpr)
		if !ok || len(c.Args) != 0 {
			return false
		}
		se, ok := ast.Unparen(c.Fun).(*ast.SelectorExpr)
		return ok && se.Sel.Name == gse.Sel.Name && sameExpr(se.X, gse.X)
	}
	validSet := func(n ast.Node) (isSet, valid bool) {
		es, ok := n.(*ast.ExprStmt)
		if !ok {
			return false, false
		}
		call, ok := ast.Unparen(es.X).(*ast.CallExpr)
		if !ok || len(call.Args) != 1 {
			return false, false
		}
		se, ok := ast.Unparen(call.Fun).(*ast.SelectorExpr)
		if !ok || se.Sel.Name != setName || !sameExpr(se.X, gse.X) {
			return false, false
		}
		if as, ok := ast.Unparen(call.Args[0]).(*ast.SelectorExpr); ok {
			if o := fieldOwner(info, as); o != nil && definitionType(o) {
				return true, true
			}
		}
		return true, false
	}
	// an invalid set anywhere spoils it
	spoiled := false
	ast.Inspect(fd.Decl.Body, func(n ast.Node) bool {
		if isSet, valid := validSet(n); isSet && !valid {
			spoiled = true
		}
		return true
	})
	if spoiled {
		return false
	}
	node := ff.Flow.EnclosingNode(at)
	if node == nil {
		return false
	}
	dbg := os.Getenv("GOBLCHECK_DEBUG_GETTER") != ""
	if dbg {
		os.Setenv("GOBLCHECK_DEBUG_PATH", "1")
		fmt.Fprintf(os.Stderr, "=== getterEstablished %s at %s\n", fd.Name(), a.p.Rel(at.Pos()))
		defer os.Unsetenv("GOBLCHECK_DEBUG_PATH")
	}
	return ff.Flow.EveryPathPasses(node, func(n ast.Node) bool {
		if dbg {
			fmt.Fprintf(os.Stderr, "getterEstablished %s: node %T %s conds=%d\n", fd.Name(), n, a.p.Rel(n.Pos()), len(ff.Flow.CondsAt(n)))
		}
		if _, valid := validSet(n); valid {
			return true
		}
		for leaf, val := range ff.Flow.CondsAt(n) {
			be, ok := ast.Unparen(leaf).(*ast.BinaryExpr)
			if !ok || !((be.Op == token.NEQ && val) || (be.Op == token.EQL && !val)) {
				continue
			}
			x, y := ast.Unparen(be.X), ast.Unparen(be.Y)
			if core.IsNil(info, x) {
				x, y = y, x
			}
			if !core.IsNil(info, y) {
				continue
			}
			if cl, ok := x.(*ast.CallExpr); ok {
				op := defCallOperand(info, cl)
				if dbg {
					fmt.Fprintf(os.Stderr, "   leaf %s op=%v isGet=%v\n", types.ExprString(leaf), op != nil, op != nil && isGet(op))
				}
				if op != nil && isGet(op) {
					return true
				}
			}
		}
		return false
	})
}
