package props

import (
	"fmt"
	"go/ast"
	"go/token"
	"go/types"
	"strings"

	"goblcheck/core"
)

func init() { register("C20", C20) }

type amtLeaf struct {
	Path  string
	Ptr   bool
	Field *types.Var
	Owner *types.Named
}

// amountLeaves enumerates the num.Amount / *num.Amount leaves reachable from a
// struct type through same-package structs (slices → "[]", pointers followed).
func amountLeaves(n *types.Named, prefix string, seen map[*types.Named]bool, out *[]amtLeaf) {
	st, ok := n.Underlying().(*types.Struct)
	if !ok || seen[n] {
		return
	}
	seen[n] = true
	defer delete(seen, n)
	for i := 0; i < st.NumFields(); i++ {
		f := st.Field(i)
		path := f.Name()
		if prefix != "" {
			path = prefix + "." + f.Name()
		}
		t := f.Type()
		switch core.TypeString(t) {
		case "num.Amount":
			*out = append(*out, amtLeaf{path, false, f, n})
			continue
		case "*num.Amount":
			*out = append(*out, amtLeaf{path, true, f, n})
			continue
		}
		switch u := t.(type) {
		case *types.Slice:
			if en, es := core.StructOf(u.Elem()); es != nil && en.Obj().Pkg() == n.Obj().Pkg() {
				amountLeaves(en, path+".[]", seen, out)
			}
		case *types.Pointer:
			if en, es := core.StructOf(u); es != nil && en.Obj().Pkg() == n.Obj().Pkg() {
				amountLeaves(en, path, seen, out)
			}
		case *types.Named:
			if _, es := core.StructOf(u); es != nil && u.Obj().Pkg() == n.Obj().Pkg() {
				amountLeaves(u, path, seen, out)
			}
		}
	}
}

// resultVar returns the variable returned by the last return statement.
func resultVar(fd *core.FuncDecl) *types.Var {
	var v *types.Var
	ast.Inspect(fd.Decl.Body, func(n ast.Node) bool {
		if _, ok := n.(*ast.FuncLit); ok {
			return false
		}
		if r, ok := n.(*ast.ReturnStmt); ok && len(r.Results) == 1 {
			if x := core.VarOf(fd.Pkg.TypesInfo, r.Results[0]); x != nil {
				v = x
			}
		}
		return true
	})
	return v
}

// resolveAmount unwraps &tmp / tmp to the expression that defined tmp.
func resolveAmount(info *types.Info, ld *core.LocalDefs, e ast.Expr) ast.Expr {
	e = ast.Unparen(e)
	if u, ok := e.(*ast.UnaryExpr); ok && u.Op == token.AND {
		e = ast.Unparen(u.X)
	}
	if _, ok := e.(*ast.Ident); ok {
		return ast.Unparen(ld.Resolve(e, 2))
	}
	return e
}

// C20 — tax summaries combine component-wise; payment totals add up.
func C20(c *core.Ctx) {
	p := c.P
	c.Explain("Decided: (R1) Total.Negate assigns to every amount leaf of the summary (all num.Amount / *num.Amount fields of Total → CategoryTotal → RateTotal → RateTotalSurcharge, enumerated from the types) the negation of that same leaf; (R2) Total.Merge combines every amount leaf of matched rows with Add of the operand's corresponding leaf, raises the accumulator's precision to the addend's first, and never replaces a possibly non-nil pointer leaf by the operand's; (R3) Merge, Clone and Negate install no operand-owned pointer or slice to amount-carrying objects in their result and store nothing through their operands; (R4) no result of a pure num.Amount/num.Percentage method is discarded anywhere in the module; (R5) the payment line and payment totals accumulate with a precision match, so the sum does not depend on line order; (R6) the payment's tax summary is the fold of Merge over clones of the line documents' summaries. Not decided: the numerical equalities themselves.")
	c.Rule("C20-R1", "Negate covers every amount leaf", 8)
	c.Rule("C20-R2", "Merge adds every amount leaf of matched rows, precision-matched, no pointer replacement", 8)
	c.Rule("C20-R3", "Merge/Clone/Negate: no operand-owned pointers in the result, no stores through operands", 3)
	c.Rule("C20-R4", "no discarded result of a pure num method (module-wide)", 1)
	c.Rule("C20-R5", "payment line / payment totals accumulate with precision match", 3)
	c.Rule("C20-R6", "payment tax summary = fold of Merge over clones of line summaries", 1)

	total := p.Named("tax", "Total")
	if total == nil {
		c.Ob("C20-R1", "UNRESOLVED:tax.Total", token.NoPos, false, "type not found")
		return
	}
	var leaves []amtLeaf
	amountLeaves(total, "", map[*types.Named]bool{}, &leaves)
	var lp []string
	for _, l := range leaves {
		lp = append(lp, l.Path)
	}
	c.Extra("amount_leaves", lp)

	c20Negate(c, leaves)
	c20Merge(c, leaves)
	c20Alias(c)
	c20Discarded(c)
	c20Payment(c)
	// R7: which rows Merge treats as "the same row" is the group identity decided under C02-R1
	// (a predicate that lets rows of different countries match folds them into one another,
	// and which of them survives depends on the order of the operands)
	c.Rule("C20-R7", "the row-matching predicate used by Merge equals the group identity (shared with C02-R1)", 2)
	sub := core.NewCtx("C02", c.Tier, c.Seed, p, c.VerifDir)
	sub.Quiet = true
	c02Matching(sub)
	c02MapEquality(sub)
	for _, o := range sub.Obligations() {
		if o.Rule == "C02-R1" || o.Rule == "C02-R6" {
			c.ObAt("C20-R7", o.Key, o.Pos, o.OK, o.Msg)
		}
	}
	c20EachConverted(c)
}

// c20EachConverted — C20-R8: "debit minus credit, each converted": in
// PaymentLine.calculate every amount handed to the currency conversion is the
// line's own debit or credit as given — not a balance or any other computed
// value, which would be rounded once where the property rounds each side.
func c20EachConverted(c *core.Ctx) {
	p := c.P
	c.Rule("C20-R8", "a payment line converts its debit and its credit each on its own", 2)
	fd := p.Func("bill", "PaymentLine", "calculate")
	if fd == nil {
		c.Ob("C20-R8", "UNRESOLVED:bill.PaymentLine.calculate", token.NoPos, false, "method not found")
		return
	}
	info := fd.Pkg.TypesInfo
	recv := recvVar(fd)
	ld := core.NewLocalDefs(info, fd.Decl.Body)
	isConvert := func(fn *types.Func) bool {
		return fn != nil && fn.Pkg() != nil && fn.Pkg().Path() == core.ModPath+"/currency" && fn.Name() == "Convert"
	}
	n := 0
	seen := map[string]bool{}
	for _, call := range core.CallsTo(info, fd.Decl.Body, isConvert) {
		if len(call.Args) == 0 {
			continue
		}
		n++
		arg := call.Args[len(call.Args)-1]
		bad := ""
		member := ""
		for _, src := range valueSources(info, ld, arg, 0) {
			e := ast.Unparen(src)
			if st, ok := e.(*ast.StarExpr); ok {
				e = ast.Unparen(st.X)
			}
			if f := core.FieldOf(info, e); f != nil && core.RootVar(info, e) == recv {
				member = f.Name()
				continue
			}
			bad = types.ExprString(src)
		}
		key := fmt.Sprintf("%s#convert%d", fd.Name(), n)
		if bad == "" && member != "" {
			key = fd.Name() + "#convert:" + member
		}
		if seen[key] {
			key += fmt.Sprintf("~%d", n)
		}
		seen[key] = true
		if bad != "" && core.VarOf(info, bad2expr(arg)) != nil {
			if _, isParam := paramIndex(fd.Obj, core.VarOf(info, arg)); isParam {
				c.Ob("C20-R8", key, call.Pos(), false, "UNDECIDED: the converted amount is a parameter of this function")
				continue
			}
		}
		c.Ob("C20-R8", key, call.Pos(), bad == "", fmt.Sprintf("the amount converted here is %s, not the line's debit or credit as given: the property converts each of the two and then subtracts; converting a computed balance rounds once where that rounds twice, so the line total (and the payment total over several lines) differs by a minor unit", bad))
	}
	if n == 0 {
		c.Ob("C20-R8", fd.Name()+"#convert", fd.Decl.Pos(), false, "NOT FOUND: no currency conversion in this function")
	}
}

func bad2expr(e ast.Expr) ast.Expr { return ast.Unparen(e) }

func c20Negate(c *core.Ctx, leaves []amtLeaf) {
	p := c.P
	fd := p.Func("tax", "Total", "Negate")
	if fd == nil {
		c.Ob("C20-R1", "UNRESOLVED:tax.Total.Negate", token.NoPos, false, "method not found")
		return
	}
	info := fd.Pkg.TypesInfo
	recv := recvVar(fd)
	res := resultVar(fd)
	if res == nil {
		c.Undecided("C20-R1", fd.Name()+"#result", fd.Decl.Pos(), "cannot identify the result variable")
		return
	}
	om := core.NewOriginMap(info, fd.Decl.Body, recv, res)
	ld := core.NewLocalDefs(info, fd.Decl.Body)
	negated := map[string]bool{}
	skipped := map[string]string{}
	ast.Inspect(fd.Decl.Body, func(n ast.Node) bool {
		as, ok := n.(*ast.AssignStmt)
		if !ok || len(as.Lhs) != 1 || len(as.Rhs) != 1 {
			return true
		}
		lo, ok := om.Of(as.Lhs[0])
		if !ok || lo.Root != res {
			return true
		}
		rhs := resolveAmount(info, ld, as.Rhs[0])
		call, ok := rhs.(*ast.CallExpr)
		if !ok || !isAmountMethod(core.Callee(info, call), "Negate", "Invert") {
			return true
		}
		ro, ok := om.Of(core.RecvExpr(call))
		if ok && ro.Path == lo.Path {
			if why := everyIteration(p, info, fd.Decl.Body, as, nilTestOfOperands(info, as)); why != "" {
				skipped[lo.Path] = why
			} else {
				negated[lo.Path] = true
			}
		}
		return true
	})
	for _, l := range leaves {
		msg := fmt.Sprintf("%s never assigns to %s the negation of the same amount: a negated summary keeps this amount's sign", fd.Name(), l.Path)
		if w, ok := skipped[l.Path]; ok && !negated[l.Path] {
			msg = fmt.Sprintf("%s negates %s only for some rows: %s", fd.Name(), l.Path, w)
		}
		c.Ob("C20-R1", "tax.Total."+l.Path, l.Field.Pos(), negated[l.Path], msg)
	}
}

func c20Merge(c *core.Ctx, leaves []amtLeaf) {
	p := c.P
	fd := p.Func("tax", "Total", "Merge")
	if fd == nil {
		c.Ob("C20-R2", "UNRESOLVED:tax.Total.Merge", token.NoPos, false, "method not found")
		return
	}
	info := fd.Pkg.TypesInfo
	recv := recvVar(fd)
	res := resultVar(fd)
	op := fd.Obj.Type().(*types.Signature).Params().At(0)
	if res == nil {
		c.Undecided("C20-R2", fd.Name()+"#result", fd.Decl.Pos(), "cannot identify the result variable")
		return
	}
	om := core.NewOriginMap(info, fd.Decl.Body, recv, res, op)
	ld := core.NewLocalDefs(info, fd.Decl.Body)
	ff := core.NewFuncFlow(fd)
	added := map[string]bool{}
	matched := map[string]bool{}
	ast.Inspect(fd.Decl.Body, func(n ast.Node) bool {
		as, ok := n.(*ast.AssignStmt)
		if !ok || len(as.Lhs) != 1 || len(as.Rhs) != 1 {
			return true
		}
		lo, ok := om.Of(as.Lhs[0])
		if !ok || lo.Root != res {
			return true
		}
		rhs := resolveAmount(info, ld, as.Rhs[0])
		if call, ok := rhs.(*ast.CallExpr); ok && isAmountMethod(core.Callee(info, call), "Add") && len(call.Args) == 1 {
			x := core.RecvExpr(call)
			mp := false
			if rc, ok := ast.Unparen(x).(*ast.CallExpr); ok && isAmountMethod(core.Callee(info, rc), "MatchPrecision") && len(rc.Args) == 1 && sameExpr(rc.Args[0], call.Args[0]) {
				mp = true
				x = core.RecvExpr(rc)
			}
			xo, ok1 := om.Of(x)
			yo, ok2 := om.Of(call.Args[0])
			if ok1 && ok2 && xo.Root == res && yo.Root == op && xo.Path == lo.Path && yo.Path == lo.Path {
				search := func(l ast.Stmt) bool {
					rs, ok := l.(*ast.RangeStmt)
					if !ok {
						return false
					}
					o, ok := om.Of(rs.X)
					return ok && o.Root == res
				}
				if why := everyIterationOf(p, info, fd.Decl.Body, as, nilTestOnly(info), false, search); why != "" {
					c.Ob("C20-R2", "tax.Total."+lo.Path+"#every-row", as.Pos(), false, "the addition of "+lo.Path+" is skipped for some rows: "+why)
					return true
				}
				added[lo.Path] = true
				if mp {
					matched[lo.Path] = true
				}
			}
			return true
		}
		// replacement of a pointer leaf by the operand's pointer: only where the result's is known nil
		if ro, ok := om.Of(as.Rhs[0]); ok && ro.Root == op && ro.Path == lo.Path {
			for _, l := range leaves {
				if l.Path != lo.Path || !l.Ptr {
					continue
				}
				// is this inside the matched branch (the result object pre-exists)?
				lhsNil := false
				node := ff.Flow.EnclosingNode(as)
				for leaf, v := range ff.Flow.CondsAt(node) {
					g := core.GuardOf(info, leaf, ff.Errs)
					if g.Kind == "nil" {
						if o, ok := om.Of(g.X); ok && o.Root == res && o.Path == lo.Path && v != g.Neg {
							lhsNil = true
						}
					}
				}
				fresh := c20FreshTarget(info, fd, as.Lhs[0])
				if !lhsNil && !fresh {
					c.Ob("C20-R2", "tax.Total."+l.Path+"#replaced", as.Pos(), false,
						"in a matched row the result's "+l.Path+" is overwritten with the operand's pointer although it may hold an amount: the result's amount is dropped (and the operand's pointer is shared)")
				}
			}
		}
		return true
	})
	for _, l := range leaves {
		c.Ob("C20-R2", "tax.Total."+l.Path+"#added", l.Field.Pos(), added[l.Path],
			fmt.Sprintf("%s never combines %s of a matched row with Add of the operand's %s", fd.Name(), l.Path, l.Path))
		if added[l.Path] {
			c.Ob("C20-R2", "tax.Total."+l.Path+"#precision", l.Field.Pos(), matched[l.Path],
				fmt.Sprintf("%s adds the operand's %s without raising the accumulator's precision to it first (x.MatchPrecision(y).Add(y)): with operands of different precision the merge depends on operand order", fd.Name(), l.Path))
		}
	}
}

// c20FreshTarget reports whether the object whose field is assigned was
// allocated in this function (`x = new(T)` / `&T{}`) — then nothing is dropped.
func c20FreshTarget(info *types.Info, fd *core.FuncDecl, lhs ast.Expr) bool {
	se, ok := ast.Unparen(lhs).(*ast.SelectorExpr)
	if !ok {
		return false
	}
	v := core.VarOf(info, se.X)
	if v == nil {
		return false
	}
	// nearest preceding definition of v is an allocation
	ld := core.NewLocalDefs(info, fd.Decl.Body)
	// the nearest preceding definition whose enclosing block also encloses the
	// assignment (a definition in a sibling branch does not reach it)
	defs := ld.All(v)
	for i := len(defs) - 1; i >= 0; i-- {
		d := defs[i]
		if d.Pos >= lhs.Pos() {
			continue
		}
		blk := innermostBlock(fd.Decl.Body, d.Stmt)
		if blk == nil || !(blk.Pos() <= lhs.Pos() && lhs.End() <= blk.End()) {
			continue
		}
		return d.RHS != nil && isAlloc(info, d.RHS)
	}
	return false
}

func innermostBlock(body *ast.BlockStmt, n ast.Node) *ast.BlockStmt {
	var best *ast.BlockStmt
	ast.Inspect(body, func(m ast.Node) bool {
		if b, ok := m.(*ast.BlockStmt); ok && b.Pos() <= n.Pos() && n.End() <= b.End() {
			best = b
		}
		return true
	})
	return best
}

func isAlloc(info *types.Info, e ast.Expr) bool {
	e = ast.Unparen(e)
	switch x := e.(type) {
	case *ast.CallExpr:
		if id, ok := x.Fun.(*ast.Ident); ok && (id.Name == "new" || id.Name == "make") {
			_, isB := info.Uses[id].(*types.Builtin)
			return isB
		}
	case *ast.UnaryExpr:
		if x.Op == token.AND {
			_, ok := ast.Unparen(x.X).(*ast.CompositeLit)
			return ok
		}
	case *ast.CompositeLit:
		return true
	}
	return false
}

// carriesAmounts reports whether a pointer/slice type leads to amount leaves of
// the summary types (the protected set of the ownership rule).
func carriesAmounts(t types.Type) bool {
	switch u := t.(type) {
	case *types.Pointer:
		if core.TypeString(u.Elem()) == "num.Amount" {
			return true
		}
		if n, st := core.StructOf(u); st != nil && n.Obj().Pkg() != nil && n.Obj().Pkg().Path() == core.ModPath+"/tax" {
			var l []amtLeaf
			amountLeaves(n, "", map[*types.Named]bool{}, &l)
			return len(l) > 0
		}
	case *types.Slice:
		return carriesAmounts(u.Elem())
	}
	return false
}

// carryingFields lists the fields of a struct type (value-nested structs
// included) whose type is a pointer or slice leading to summary amounts: a
// plain copy of the struct shares them.
func carryingFields(t types.Type) []string {
	st, ok := t.Underlying().(*types.Struct)
	if !ok {
		return nil
	}
	var out []string
	for i := 0; i < st.NumFields(); i++ {
		f := st.Field(i)
		if carriesAmounts(f.Type()) {
			out = append(out, f.Name())
		} else if _, isSt := f.Type().Underlying().(*types.Struct); isSt {
			for _, s := range carryingFields(f.Type()) {
				out = append(out, f.Name()+"."+s)
			}
		}
	}
	return out
}

func c20Alias(c *core.Ctx) {
	p := c.P
	var work []*core.FuncDecl
	inSet := map[*types.Func]bool{}
	for _, name := range []string{"Merge", "Clone", "Negate"} {
		fd := p.Func("tax", "Total", name)
		if fd == nil {
			c.Ob("C20-R3", "UNRESOLVED:tax.Total."+name, token.NoPos, false, "method not found")
			continue
		}
		work = append(work, fd)
		inSet[fd.Obj] = true
	}
	for len(work) > 0 {
		fd := work[0]
		work = work[1:]
		info := fd.Pkg.TypesInfo
		// same-package helpers that receive amount-carrying pointers are analysed too
		ast.Inspect(fd.Decl.Body, func(n ast.Node) bool {
			call, ok := n.(*ast.CallExpr)
			if !ok {
				return true
			}
			fn := core.Callee(info, call)
			if fn == nil || fn.Pkg() != fd.Obj.Pkg() || inSet[fn] {
				return true
			}
			takes := false
			if r := core.RecvExpr(call); r != nil {
				if t := info.TypeOf(r); t != nil && carriesAmounts(t) {
					takes = true
				}
			}
			for _, a := range call.Args {
				if t := info.TypeOf(a); t != nil && carriesAmounts(t) {
					takes = true
				}
			}
			if takes {
				if cfd := p.DeclOf(fn); cfd != nil {
					inSet[fn] = true
					work = append(work, cfd)
				}
			}
			return true
		})
		sig := fd.Obj.Type().(*types.Signature)
		operands := []*types.Var{sig.Recv()}
		for i := 0; i < sig.Params().Len(); i++ {
			operands = append(operands, sig.Params().At(i))
		}
		res := resultVar(fd)
		roots := append([]*types.Var{}, operands...)
		if res != nil {
			roots = append(roots, res)
		}
		om := core.NewOriginMap(info, fd.Decl.Body, roots...)
		isOperand := func(e ast.Expr) (core.Origin, bool) {
			// the address of a local value variable is a fresh pointer, whatever was copied into it
			if u, isU := ast.Unparen(e).(*ast.UnaryExpr); isU && u.Op == token.AND {
				if id, isID := ast.Unparen(u.X).(*ast.Ident); isID {
					if v, isV := info.Uses[id].(*types.Var); isV && !v.IsField() && v.Parent() != v.Pkg().Scope() {
						return core.Origin{}, false
					}
				}
			}
			o, ok := om.Of(e)
			if !ok {
				return o, false
			}
			for _, r := range operands {
				if o.Root == r {
					return o, true
				}
			}
			return o, false
		}
		bad := 0
		report := func(pos token.Pos, what string) {
			bad++
			c.Ob("C20-R3", fmt.Sprintf("%s#%s", fd.Name(), what), pos, false,
				"an operand-owned pointer to amount-carrying data is installed in the result (later writes through it, e.g. rounding or a further merge, alter the operand): "+what)
		}
		// shallow struct copies `v := *operand`: the copy's pointer fields still
		// point into the operand unless each is re-assigned afterwards
		handledStar := map[*ast.StarExpr]bool{}
		shallow := func(star *ast.StarExpr) []string {
			tv, ok := info.Types[star]
			if !ok || !tv.IsValue() {
				return nil
			}
			if _, isOp := isOperand(star.X); !isOp {
				return nil
			}
			return carryingFields(tv.Type)
		}
		ast.Inspect(fd.Decl.Body, func(n ast.Node) bool {
			as, ok := n.(*ast.AssignStmt)
			if !ok || len(as.Lhs) != len(as.Rhs) {
				return true
			}
			for i, lhs := range as.Lhs {
				star, ok := ast.Unparen(as.Rhs[i]).(*ast.StarExpr)
				if !ok {
					continue
				}
				fields := shallow(star)
				if len(fields) == 0 {
					continue
				}
				handledStar[star] = true
				v := core.VarOf(info, lhs)
				for _, f := range fields {
					reset := false
					if v != nil {
						ast.Inspect(fd.Decl.Body, func(m ast.Node) bool {
							if as2, ok := m.(*ast.AssignStmt); ok && as2.Pos() > as.Pos() {
								for _, l2 := range as2.Lhs {
									if core.IsFieldOfVar(info, l2, v, f) {
										reset = true
									}
								}
							}
							return true
						})
					}
					if !reset {
						report(as.Pos(), fmt.Sprintf("shallow-copy:%s.%s", types.ExprString(star), f))
					}
				}
			}
			return true
		})
		ast.Inspect(fd.Decl.Body, func(n ast.Node) bool {
			if star, ok := n.(*ast.StarExpr); ok && !handledStar[star] {
				for _, f := range shallow(star) {
					report(star.Pos(), fmt.Sprintf("shallow-copy:%s.%s", types.ExprString(star), f))
				}
			}
			if r, ok := n.(*ast.ReturnStmt); ok {
				for _, e := range r.Results {
					if t := info.TypeOf(e); t != nil && carriesAmounts(t) {
						if ro, isOp := isOperand(e); isOp {
							report(r.Pos(), "return:"+ro.Path)
						}
					}
				}
			}
			as, ok := n.(*ast.AssignStmt)
			if !ok {
				return true
			}
			for i, lhs := range as.Lhs {
				if i >= len(as.Rhs) {
					break
				}
				// store through an operand
				if lo, isOp := isOperand(lhs); isOp {
					if _, isIdent := ast.Unparen(lhs).(*ast.Ident); !isIdent {
						c.Ob("C20-R3", fmt.Sprintf("%s#store-through-operand:%s", fd.Name(), lo.Path), as.Pos(), false, "the function stores into its operand at "+lo.Path)
						bad++
					}
					continue
				}
				if _, isIdent := ast.Unparen(lhs).(*ast.Ident); isIdent {
					continue // local temporaries may alias for reading
				}
				rhs := ast.Unparen(as.Rhs[i])
				t := info.TypeOf(rhs)
				if t == nil || !carriesAmounts(t) {
					continue
				}
				if ro, isOp := isOperand(rhs); isOp {
					report(as.Pos(), "copy:"+ro.Path)
					continue
				}
				// append(x, operandSlice...) / append(x, operandElem)
				if call, ok := rhs.(*ast.CallExpr); ok {
					if id, ok := call.Fun.(*ast.Ident); ok && id.Name == "append" {
						for _, a := range call.Args[1:] {
							if ro, isOp := isOperand(a); isOp {
								report(as.Pos(), "append:"+ro.Path)
							}
						}
					}
				}
			}
			return true
		})
		if bad == 0 {
			c.Ob("C20-R3", fd.Name(), fd.Decl.Pos(), true, "")
		}
	}
}

func c20Discarded(c *core.Ctx) {
	p := c.P
	n := 0
	sites := 0
	for _, fd := range p.AllFuncs() {
		info := fd.Pkg.TypesInfo
		ast.Inspect(fd.Decl.Body, func(m ast.Node) bool {
			call, ok := m.(*ast.CallExpr)
			if ok {
				if fn := core.Callee(info, call); fn != nil {
					if r := core.RecvNamed(fn); r != nil && r.Obj().Pkg() != nil && r.Obj().Pkg().Path() == core.ModPath+"/num" {
						sites++
					}
				}
			}
			es, ok := m.(*ast.ExprStmt)
			if !ok {
				return true
			}
			call, ok = ast.Unparen(es.X).(*ast.CallExpr)
			if !ok {
				return true
			}
			fn := core.Callee(info, call)
			if fn == nil {
				return true
			}
			r := core.RecvNamed(fn)
			if r == nil || r.Obj().Pkg() == nil || r.Obj().Pkg().Path() != core.ModPath+"/num" {
				return true
			}
			sig := fn.Type().(*types.Signature)
			if _, isPtr := sig.Recv().Type().(*types.Pointer); isPtr || sig.Results().Len() == 0 {
				return true
			}
			n++
			c.Ob("C20-R4", fmt.Sprintf("%s#discarded:%s%d", fd.Name(), fn.Name(), n), call.Pos(), false,
				fmt.Sprintf("result of the pure method num.%s.%s is discarded: the operation has no effect", r.Obj().Name(), fn.Name()))
			return true
		})
	}
	c.Extra("num_method_call_sites_scanned", sites)
	if sites < 200 {
		c.Ob("C20-R4", "UNRESOLVED:num-call-sites", token.NoPos, false, fmt.Sprintf("only %d call sites of num methods found", sites))
	}
	if n == 0 {
		c.Ob("C20-R4", "module#no-discarded-num-results", token.NoPos, true, "")
	}
}

func c20Payment(c *core.Ctx) {
	p := c.P
	for _, spec := range []struct{ recv, name string }{{"PaymentLine", "calculate"}, {"Payment", "calculate"}} {
		fd := p.Func("bill", spec.recv, spec.name)
		if fd == nil {
			c.Ob("C20-R5", "UNRESOLVED:bill."+spec.recv+"."+spec.name, token.NoPos, false, "method not found")
			continue
		}
		accs := FindAccums(p, fd)
		if len(accs) == 0 {
			// the accumulation may live in a helper the loop calls with the line's amount
			// (sums.addTotal(l.Total)): the helper's accumulation is judged, and the call must be
			// executed for every line
			delegated := 0
			info := fd.Pkg.TypesInfo
			ast.Inspect(fd.Decl.Body, func(n ast.Node) bool {
				es, ok := n.(*ast.ExprStmt)
				if !ok {
					return true
				}
				call, ok := es.X.(*ast.CallExpr)
				if !ok {
					return true
				}
				g := core.Callee(info, call)
				if g == nil || g.Pkg() != fd.Obj.Pkg() {
					return true
				}
				gfd := p.DeclOf(g)
				if gfd == nil {
					return true
				}
				for i, a := range FindAccums(p, gfd) {
					delegated++
					key := fmt.Sprintf("%s→%s#%s%d:%s", fd.Name(), g.Name(), strings.ToLower(a.Op), i+1, types.ExprString(a.Dest))
					base := nilTestOfOperandsIn(fd.Pkg.TypesInfo, fd.Decl.Body, es)
					if why := everyIterationOf(p, info, fd.Decl.Body, es, base, spec.recv == "PaymentLine"); why != "" {
						c.Ob("C20-R5", key+"#every-line", es.Pos(), false, "the accumulation is not executed for every line: "+why)
					}
					gbase := nilTestOfOperandsIn(gfd.Pkg.TypesInfo, gfd.Decl.Body, a.Assign)
					if why := everyIterationOf(p, gfd.Pkg.TypesInfo, gfd.Decl.Body, a.Assign, gbase, true); why != "" {
						c.Ob("C20-R5", key+"#every-call", a.Assign.Pos(), false, "the helper does not accumulate on every call: "+why)
					}
					c.Ob("C20-R5", key, a.Assign.Pos(), a.Matched,
						fmt.Sprintf("%s = %s.%s(%s) without first raising the accumulator's precision to the addend's: the addend is rounded to the accumulator's precision and the total depends on which line comes first", types.ExprString(a.Dest), types.ExprString(a.Dest), a.Op, types.ExprString(a.Addend)))
				}
				return true
			})
			if delegated == 0 {
				c.Ob("C20-R5", fd.Name()+"#accumulators", fd.Decl.Pos(), false, "no amount accumulation found")
			}
		}
		for i, a := range accs {
			// PaymentLine.calculate is itself the per-line step
			base := nilTestOfOperandsIn(fd.Pkg.TypesInfo, fd.Decl.Body, a.Assign)
			acc := a
			allow := func(cond ast.Expr, then bool) bool {
				return base(cond, then) || firstIterationSeed(fd.Pkg.TypesInfo, fd.Decl.Body, cond, acc)
			}
			if why := everyIterationOf(p, fd.Pkg.TypesInfo, fd.Decl.Body, a.Assign, allow, spec.recv == "PaymentLine"); why != "" {
				c.Ob("C20-R5", fmt.Sprintf("%s#%s%d:%s#every-line", fd.Name(), strings.ToLower(a.Op), i+1, types.ExprString(a.Dest)), a.Assign.Pos(), false,
					"the accumulation is not executed for every line: "+why)
			}
			c.Ob("C20-R5", fmt.Sprintf("%s#%s%d:%s", fd.Name(), strings.ToLower(a.Op), i+1, types.ExprString(a.Dest)), a.Assign.Pos(), a.Matched,
				fmt.Sprintf("%s = %s.%s(%s) without first raising the accumulator's precision to the addend's: the addend is rounded to the accumulator's precision and the total depends on which line comes first", types.ExprString(a.Dest), types.ExprString(a.Dest), a.Op, types.ExprString(a.Addend)))
		}
	}
	// R6: pmt.Tax assigned from the Merge fold of clones
	fd := p.Func("bill", "Payment", "calculate")
	if fd == nil {
		return
	}
	info := fd.Pkg.TypesInfo
	recv := recvVar(fd)
	var acc *types.Var
	ast.Inspect(fd.Decl.Body, func(n ast.Node) bool {
		if as, ok := n.(*ast.AssignStmt); ok && len(as.Lhs) == 1 && core.IsFieldOfVar(info, as.Lhs[0], recv, "Tax") {
			acc = core.VarOf(info, as.Rhs[0])
		}
		return true
	})
	if acc == nil {
		if c20TaxFoldDelegated(c, fd) {
			return
		}
		c.Ob("C20-R6", fd.Name()+"#tax", fd.Decl.Pos(), false, "the payment's Tax is not assigned from a local accumulator")
		return
	}
	ld := core.NewLocalDefs(info, fd.Decl.Body)
	okMerge, okSeed := false, false
	var lineSum *types.Var
	for _, d := range ld.All(acc) {
		if d.RHS == nil {
			continue
		}
		rhs := ast.Unparen(d.RHS)
		if call, ok := rhs.(*ast.CallExpr); ok {
			if fn := core.Callee(info, call); fn != nil && core.IsFunc(fn, core.ModPath+"/tax", "Total", "Merge") && core.VarOf(info, core.RecvExpr(call)) == acc && len(call.Args) == 1 {
				okMerge = true
				lineSum = core.VarOf(info, call.Args[0])
			}
			continue
		}
		if v := core.VarOf(info, rhs); v != nil {
			okSeed = true
			if lineSum == nil {
				lineSum = v
			}
		}
	}
	okClone, okCalc := false, false
	if lineSum != nil {
		for _, d := range ld.All(lineSum) {
			if call, ok := ast.Unparen(d.RHS).(*ast.CallExpr); d.RHS != nil && ok {
				if fn := core.Callee(info, call); fn != nil && core.IsFunc(fn, core.ModPath+"/tax", "Total", "Clone") {
					if f := core.FieldOf(info, core.RecvExpr(call)); f != nil && f.Name() == "Tax" {
						okClone = true
						// a Calculate of the line document precedes
						for _, cc := range core.CallsTo(info, fd.Decl.Body, func(f *types.Func) bool {
							return core.IsFunc(f, core.ModPath+"/org", "DocumentRef", "Calculate")
						}) {
							if cc.Pos() < call.Pos() {
								okCalc = true
							}
						}
					}
				}
			}
		}
	}
	c.Ob("C20-R6", fd.Name()+"#tax-fold", fd.Decl.Pos(), okMerge && okSeed && okClone && okCalc,
		fmt.Sprintf("the payment's tax summary is not the Merge fold over clones of each recalculated line document summary (merge=%v seed=%v clone=%v recalculated=%v)", okMerge, okSeed, okClone, okCalc))
}

// firstIterationSeed: the condition is `<range index> == 0` (or != / > 0) of the
// loop that contains the accumulation, and the other branch of that if
// statement seeds the accumulator with the very addend (`sum = x` on the first
// element, `sum = sum.Add(x)` afterwards): every element is still counted once.
func firstIterationSeed(info *types.Info, body *ast.BlockStmt, cond ast.Expr, a Accum) bool {
	if flagSeed(info, body, cond, a) {
		return true
	}
	be, ok := ast.Unparen(cond).(*ast.BinaryExpr)
	if !ok {
		return false
	}
	iv := core.VarOf(info, be.X)
	if tv, ok := info.Types[be.Y]; iv == nil || !ok || tv.Value == nil || tv.Value.String() != "0" {
		return false
	}
	switch be.Op {
	case token.EQL, token.NEQ, token.GTR:
	default:
		return false
	}
	res := false
	ast.Inspect(body, func(n ast.Node) bool {
		rs, ok := n.(*ast.RangeStmt)
		if !ok || core.VarOf(info, rs.Key) != iv {
			return true
		}
		ast.Inspect(rs.Body, func(m ast.Node) bool {
			is, ok := m.(*ast.IfStmt)
			if !ok || is.Cond != cond {
				return true
			}
			eb, _ := is.Else.(*ast.BlockStmt)
			if eb == nil {
				return true
			}
			seedBlk, accBlk := is.Body, eb
			if be.Op != token.EQL {
				seedBlk, accBlk = eb, is.Body
			}
			if !(accBlk.Pos() <= a.Assign.Pos() && a.Assign.End() <= accBlk.End()) {
				return true
			}
			for _, s := range seedBlk.List {
				if as, ok := s.(*ast.AssignStmt); ok && len(as.Lhs) == 1 && len(as.Rhs) == 1 && sameLoc(info, as.Lhs[0], a.Dest) && sameExpr(as.Rhs[0], a.Addend) {
					res = true
				}
			}
			return true
		})
		return true
	})
	return res
}


// flagSeed: the condition is a boolean local F (or !F) that starts false and is
// set to true only in the branch that seeds the accumulator with the very
// addend (`if seen { sum = sum.Add(x) } else { sum = x; seen = true }`): every
// element is still counted once.
func flagSeed(info *types.Info, body *ast.BlockStmt, cond ast.Expr, a Accum) bool {
	e := ast.Unparen(cond)
	neg := false
	if u, ok := e.(*ast.UnaryExpr); ok && u.Op == token.NOT {
		neg = true
		e = ast.Unparen(u.X)
	}
	id, ok := e.(*ast.Ident)
	if !ok {
		return false
	}
	f := core.VarOf(info, id)
	if f == nil || f.IsField() || !types.Identical(f.Type().Underlying(), types.Typ[types.Bool]) {
		return false
	}
	// the if statement
	var is *ast.IfStmt
	ast.Inspect(body, func(n ast.Node) bool {
		if x, ok := n.(*ast.IfStmt); ok && x.Cond == cond {
			is = x
		}
		return is == nil
	})
	if is == nil {
		return false
	}
	eb, _ := is.Else.(*ast.BlockStmt)
	if eb == nil {
		return false
	}
	accBlk, seedBlk := is.Body, eb // `if F { accumulate } else { seed }`
	if neg {
		accBlk, seedBlk = eb, is.Body
	}
	if !(accBlk.Pos() <= a.Assign.Pos() && a.Assign.End() <= accBlk.End()) {
		return false
	}
	seeds, sets := false, false
	for _, s := range seedBlk.List {
		as, ok := s.(*ast.AssignStmt)
		if !ok || len(as.Lhs) != 1 || len(as.Rhs) != 1 {
			continue
		}
		if sameLoc(info, as.Lhs[0], a.Dest) && sameExpr(as.Rhs[0], a.Addend) {
			seeds = true
		}
		if core.VarOf(info, as.Lhs[0]) == f {
			if tv, ok := info.Types[as.Rhs[0]]; ok && tv.Value != nil && tv.Value.String() == "true" {
				sets = true
			}
		}
	}
	if !seeds || !sets {
		return false
	}
	// the flag starts false and is assigned nowhere else
	for _, d := range core.NewLocalDefs(info, body).All(f) {
		if d.RHS == nil {
			continue // var seen bool
		}
		if d.Pos >= seedBlk.Pos() && d.Pos <= seedBlk.End() {
			continue
		}
		if tv, ok := info.Types[d.RHS]; ok && tv.Value != nil && tv.Value.String() == "false" {
			continue
		}
		return false
	}
	return true
}

// c20TaxFoldDelegated: pmt.Tax is assigned from a member of a local structure
// (`pmt.Tax = sums.taxes`) that a method of that structure folds:
// `m = m.Merge(x)` with the seed `m = x`, called from the loop with a clone of
// the recalculated line document's summary.
func c20TaxFoldDelegated(c *core.Ctx, fd *core.FuncDecl) bool {
	p := c.P
	info := fd.Pkg.TypesInfo
	recv := recvVar(fd)
	var member *types.Var
	var holder *types.Var
	ast.Inspect(fd.Decl.Body, func(n ast.Node) bool {
		if as, ok := n.(*ast.AssignStmt); ok && len(as.Lhs) == 1 && len(as.Rhs) == 1 && core.IsFieldOfVar(info, as.Lhs[0], recv, "Tax") {
			if f := core.FieldOf(info, as.Rhs[0]); f != nil {
				if se, ok := ast.Unparen(as.Rhs[0]).(*ast.SelectorExpr); ok {
					member, holder = f, core.VarOf(info, se.X)
				}
			}
		}
		return true
	})
	if member == nil || holder == nil {
		return false
	}
	okMerge, okSeed, okClone, okCalc := false, false, false, false
	for _, call := range core.CallsTo(info, fd.Decl.Body, func(f *types.Func) bool { return f.Pkg() == fd.Obj.Pkg() }) {
		re := core.RecvExpr(call)
		if re == nil || core.RootVar(info, re) != holder {
			continue
		}
		g := core.Callee(info, call)
		gfd := p.DeclOf(g)
		if gfd == nil {
			continue
		}
		ginfo := gfd.Pkg.TypesInfo
		sig := g.Type().(*types.Signature)
		folds := false
		ast.Inspect(gfd.Decl.Body, func(n ast.Node) bool {
			as, ok := n.(*ast.AssignStmt)
			if !ok || len(as.Lhs) != 1 || len(as.Rhs) != 1 || core.FieldOf(ginfo, as.Lhs[0]) != member {
				return true
			}
			rhs := ast.Unparen(as.Rhs[0])
			if mc, ok := rhs.(*ast.CallExpr); ok {
				if fn := core.Callee(ginfo, mc); fn != nil && core.IsFunc(fn, core.ModPath+"/tax", "Total", "Merge") && core.FieldOf(ginfo, core.RecvExpr(mc)) == member && len(mc.Args) == 1 {
					if v := core.VarOf(ginfo, mc.Args[0]); v != nil && sig.Params().Len() == 1 && v == sig.Params().At(0) {
						okMerge, folds = true, true
					}
				}
				return true
			}
			if v := core.VarOf(ginfo, rhs); v != nil && sig.Params().Len() == 1 && v == sig.Params().At(0) {
				okSeed = true
			}
			return true
		})
		if !folds || len(call.Args) != 1 {
			continue
		}
		// what is handed in: a clone of the line document's summary, after its recalculation
		arg := ast.Unparen(call.Args[0])
		if v := core.VarOf(info, arg); v != nil {
			ld := core.NewLocalDefs(info, fd.Decl.Body)
			if ds := ld.All(v); len(ds) == 1 && ds[0].RHS != nil {
				arg = ast.Unparen(ds[0].RHS)
			}
		}
		if cl, ok := arg.(*ast.CallExpr); ok {
			if fn := core.Callee(info, cl); fn != nil && core.IsFunc(fn, core.ModPath+"/tax", "Total", "Clone") {
				if f := core.FieldOf(info, core.RecvExpr(cl)); f != nil && f.Name() == "Tax" {
					okClone = true
					for _, cc := range core.CallsTo(info, fd.Decl.Body, func(f *types.Func) bool {
						return core.IsFunc(f, core.ModPath+"/org", "DocumentRef", "Calculate")
					}) {
						if cc.Pos() < cl.Pos() {
							okCalc = true
						}
					}
				}
			}
		}
	}
	if !okMerge {
		return false
	}
	c.Ob("C20-R6", fd.Name()+"#tax-fold", fd.Decl.Pos(), okMerge && okSeed && okClone && okCalc,
		fmt.Sprintf("the payment's tax summary is not the Merge fold over clones of each recalculated line document summary (merge=%v seed=%v clone=%v recalculated=%v)", okMerge, okSeed, okClone, okCalc))
	return true
}
