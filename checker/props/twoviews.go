package props

import (
	"fmt"
	"os"
	"sort"
	"strings"

	"goblcheck/core"
)

// RunViews decides a property on two behaviour-equivalent views of the subject:
// the declarations as written and, only when something is reported there, the
// normalised view in which same-package helpers are inlined (core/inline.go).
// An obligation that fails as written is discharged if the same instance is
// decided on the normalised view, or if it does not arise there and its rule is
// clean there. Extracting a
// helper, or folding one back, therefore does not change a verdict, while a
// change of behaviour shows on both views. Known findings are matched on the
// view as written.
func RunViews(id, tier string, seed int64, prog *core.Program, verif string, quiet bool) *core.Ctx {
	run := func(inline bool) *core.Ctx {
		c := core.NewCtx(id, tier, seed, prog, verif)
		c.Quiet = quiet
		prog.InlineMode = inline
		defer func() { prog.InlineMode = false }()
		func() {
			defer func() {
				if r := recover(); r != nil {
					c.Ob("PANIC", "checker", 0, false, fmt.Sprintf("analysis panicked: %v", r))
					if os.Getenv("GOBLCHECK_TRACE") != "" {
						panic(r)
					}
				}
			}()
			SetSubject(prog)
			Registry[id](c)
		}()
		c.CloseMinimums()
		return c
	}
	findings, _ := core.LoadFindings(verif)
	known := map[string]bool{}
	for _, f := range findings {
		if f.Property == id && f.Status == "known" {
			known[f.Rule+"|"+f.Key] = true
		}
	}
	failing := func(c *core.Ctx) map[string]bool {
		out := map[string]bool{}
		for _, o := range c.Obligations() {
			if !o.OK && !known[o.Rule+"|"+o.Key] {
				out[o.Rule] = true
			}
		}
		return out
	}
	if os.Getenv("GOBLCHECK_VIEW") == "inlined" {
		return run(true) // debugging aid: the inlined view alone
	}
	a := run(false)
	fa := failing(a)
	if len(fa) == 0 || os.Getenv("GOBLCHECK_NO_INLINE_VIEW") != "" {
		return a
	}
	b := run(true)
	fb := failing(b)
	dissolved := prog.DissolvedNames()
	okB := map[string]bool{}   // rule|key decided OK on the inlined view
	seenB := map[string]bool{} // rule|key present on the inlined view
	for _, o := range b.Obligations() {
		seenB[o.Rule+"|"+o.Key] = true
		if o.OK {
			okB[o.Rule+"|"+o.Key] = true
		}
	}
	var discharged []string
	dis := map[string]bool{}
	for _, o := range a.Obligations() {
		if o.OK || known[o.Rule+"|"+o.Key] || o.Rule == "PANIC" {
			continue
		}
		k := o.Rule + "|" + o.Key
		// the same instance is decided on the inlined view; or it does not arise there, the
		// whole rule is clean there, and the instance is either a failure to find an
		// anchor or belongs to a helper that is dissolved into its callers on that view
		absentOK := false
		if !seenB[k] && !fb[o.Rule] {
			if strings.HasPrefix(o.Key, "UNRESOLVED:") || strings.HasPrefix(o.Msg, "UNDECIDED:") || strings.HasPrefix(o.Msg, "NOT FOUND:") {
				absentOK = true // the view as written did not offer the construct the rule reads; the other view did
			}
			for _, dn := range dissolved {
				if o.Key == dn || strings.HasPrefix(o.Key, dn+"#") {
					absentOK = true
				}
			}
		}
		if okB[k] || absentOK {
			o.OK = true
			o.Msg = "discharged on the inlined view (as written: " + o.Msg + ")"
			if !dis[o.Rule] {
				dis[o.Rule] = true
				discharged = append(discharged, o.Rule)
			}
		}
	}
	sort.Strings(discharged)
	if len(discharged) > 0 {
		a.Extra("rules_discharged_on_inlined_view", strings.Join(discharged, ","))
	}
	return a
}
