package props

import (
	"fmt"
	"go/ast"
	"go/token"
	"go/types"

	"goblcheck/core"
)

func init() { register("C08", C08) }

// C08 — the header digest makes every change to the document evident.
func C08(c *core.Ctx) {
	p := c.P
	c.Explain("Decided: (R1) every success exit of Envelope.Validate/ValidateWithContext passes through, and heeds, a digest comparison whose operands are the header digest and a freshly computed digest; (R2) Digest.Equals compares every field of Digest; (R3) the digest is SHA-256 over the canonical JSON of json.Marshal of the whole document object and is stored in the header after the document has been calculated; (R4) no registered document type hides a data field from serialisation (shared with C04-R4). Not decided: that SHA-256 over canonical bytes is sensitive to every edit (cryptographic/value-level), nor canonicalisation itself (C07).")
	c.Rule("C08-R1", "validation success passes through and heeds Digest.Equals(header digest, fresh digest)", 3)
	c.Rule("C08-R2", "Digest.Equals compares every field", 2)
	c.Rule("C08-R3", "digest = SHA256(c14n(json.Marshal(whole document))), stored after calculation", 4)
	c.Rule("C08-R4", "no registered document type has a data field excluded from serialisation", 1)

	root := p.Pkg("")
	if root == nil {
		c.Ob("C08-R1", "UNRESOLVED:root", token.NoPos, false, "root package not loaded")
		return
	}
	isEquals := func(f *types.Func) bool { return core.IsFunc(f, core.ModPath+"/dsig", "Digest", "Equals") }
	isSHA := func(f *types.Func) bool { return core.IsFunc(f, core.ModPath+"/dsig", "", "NewSHA256Digest") }

	// the digest-producing method(s) of Envelope: reach NewSHA256Digest directly
	digestFn := map[*types.Func]bool{}
	for _, fd := range p.Funcs(root) {
		for _, g := range p.FuncRefs(fd.Obj) {
			if isSHA(g) {
				digestFn[fd.Obj] = true
			}
		}
	}

	// R1: digest-checking closure
	checking := map[*types.Func]bool{}
	for _, fd := range p.Funcs(root) {
		info := fd.Pkg.TypesInfo
		calls := core.CallsTo(info, fd.Decl.Body, isEquals)
		if len(calls) == 0 {
			continue
		}
		ff := core.NewFuncFlow(fd)
		ld := core.NewLocalDefs(info, fd.Decl.Body)
		recv := recvVar(fd)
		for i, call := range calls {
			key := fmt.Sprintf("%s#Equals%d", fd.Name(), i+1)
			h := ff.Heeds(p, call, nil)
			if !h.OK {
				c.Ob("C08-R1", key, call.Pos(), false, "result of the digest comparison is not heeded: "+h.Why)
				continue
			}
			if why := mustPassBeforeSuccess(p, ff, call); why != "" {
				c.Ob("C08-R1", key, call.Pos(), false, why)
				continue
			}
			// operands
			a := core.RecvExpr(call)
			b := call.Args[0]
			isHeaderDigest := func(e ast.Expr) bool {
				srcs := valueSources(info, ld, e, 0)
				if len(srcs) != 1 {
					return false
				}
				r, path := core.FieldPath(info, srcs[0])
				if r == recv && recv != nil && path == "Head.Digest" {
					return true
				}
				// a parameter: every caller (a method of the same receiver type, calling on its own
				// receiver) hands in its receiver's Head.Digest
				pv := core.VarOf(info, srcs[0])
				pi, isParam := -2, false
				if pv != nil {
					pi, isParam = paramIndex(fd.Obj, pv)
				}
				if !isParam || pi < 0 || len(ld.All(pv)) > 0 {
					return false
				}
				n := 0
				for _, cfd := range p.Funcs(root) {
					cinfo := cfd.Pkg.TypesInfo
					crecv := recvVar(cfd)
					for _, cc := range core.CallsTo(cinfo, cfd.Decl.Body, func(f *types.Func) bool { return f == fd.Obj }) {
						n++
						if pi >= len(cc.Args) || crecv == nil || core.VarOf(cinfo, core.RecvExpr(cc)) != crecv {
							return false
						}
						cr, cpath := core.FieldPath(cinfo, cc.Args[pi])
						if cr != crecv || cpath != "Head.Digest" {
							return false
						}
					}
				}
				return n > 0
			}
			// every value the operand can hold (nil aside) is a digest computed here and now: the
			// envelope's digest method on this receiver, or dsig.NewSHA256Digest itself (what it
			// hashes is judged by R3 in this very function)
			isFresh := func(e ast.Expr) bool {
				srcs := valueSources(info, ld, e, 0)
				for _, src := range srcs {
					cl, ok := src.(*ast.CallExpr)
					if !ok {
						return false
					}
					fn := core.Callee(info, cl)
					if fn == nil {
						return false
					}
					if !(isSHA(fn) || (digestFn[fn] && core.VarOf(info, core.RecvExpr(cl)) == recv)) {
						return false
					}
				}
				return len(srcs) > 0
			}
			ok := (isHeaderDigest(a) && isFresh(b)) || (isHeaderDigest(b) && isFresh(a))
			c.Ob("C08-R1", key, call.Pos(), ok, "the comparison is not between <receiver>.Head.Digest and a freshly computed <receiver>.Digest()")
			if ok {
				checking[fd.Obj] = true
			}
		}
	}
	for changed := true; changed; {
		changed = false
		for _, fd := range p.Funcs(root) {
			if checking[fd.Obj] {
				continue
			}
			info := fd.Pkg.TypesInfo
			calls := core.CallsTo(info, fd.Decl.Body, func(f *types.Func) bool { return checking[f] })
			if len(calls) == 0 {
				continue
			}
			ff := core.NewFuncFlow(fd)
			for _, call := range calls {
				if core.VarOf(info, core.RecvExpr(call)) != recvVar(fd) {
					continue
				}
				if h := ff.Heeds(p, call, nil); !h.OK {
					continue
				}
				if mustPassBeforeSuccess(p, ff, call) != "" {
					continue
				}
				checking[fd.Obj] = true
				changed = true
			}
		}
	}
	for _, name := range []string{"Validate", "ValidateWithContext"} {
		fd := p.Func("", "Envelope", name)
		if fd == nil {
			c.Ob("C08-R1", "UNRESOLVED:Envelope."+name, token.NoPos, false, "method not found")
			continue
		}
		c.Ob("C08-R1", fd.Name(), fd.Decl.Pos(), checking[fd.Obj],
			"a success exit does not pass through a heeded comparison of the header digest with a fresh digest")
	}

	// R2: Equals covers all fields
	if fd := p.Func("dsig", "Digest", "Equals"); fd != nil {
		sig := fd.Obj.Type().(*types.Signature)
		a, b := sig.Recv(), sig.Params().At(0)
		om := core.NewOriginMap(fd.Pkg.TypesInfo, fd.Decl.Body, a, b)
		cmp := om.ComparedPaths(fd.Decl.Body, a, b)
		_, st := core.StructOf(a.Type())
		for i := 0; st != nil && i < st.NumFields(); i++ {
			f := st.Field(i)
			_, ok := cmp[f.Name()]
			c.Ob("C08-R2", "dsig.Digest."+f.Name(), f.Pos(), ok, "Digest.Equals never compares this field of the two digests")
		}
	} else {
		c.Ob("C08-R2", "UNRESOLVED:dsig.Digest.Equals", token.NoPos, false, "method not found")
	}

	// R3: what is hashed
	for fn := range digestFn {
		fd := p.DeclOf(fn)
		info := fd.Pkg.TypesInfo
		ld := core.NewLocalDefs(info, fd.Decl.Body)
		recv := recvVar(fd)
		for i, call := range core.CallsTo(info, fd.Decl.Body, isSHA) {
			key := fmt.Sprintf("%s#hash-input%d", fd.Name(), i+1)
			e := call.Args[0]
			sawC14n := false
			var marshalArg ast.Expr
			for step := 0; step < 8; step++ {
				srcs := valueSources(info, ld, e, 0)
				if len(srcs) != 1 {
					break
				}
				e = srcs[0]
				cl, ok := ast.Unparen(e).(*ast.CallExpr)
				if !ok {
					break
				}
				cf := core.Callee(info, cl)
				if cf == nil || len(cl.Args) == 0 {
					break
				}
				switch {
				case core.IsFunc(cf, core.ModPath+"/c14n", "", "CanonicalJSON"):
					sawC14n = true
					e = cl.Args[0]
				case core.IsFunc(cf, "bytes", "", "NewReader"), core.IsFunc(cf, "bytes", "", "NewBuffer"):
					e = cl.Args[0]
				case core.IsFunc(cf, "encoding/json", "", "Marshal"):
					marshalArg = cl.Args[0]
					step = 99
				default:
					step = 99
				}
			}
			ok := sawC14n && marshalArg != nil && core.IsFieldOfVar(info, marshalArg, recv, "Document")
			c.Ob("C08-R3", key, call.Pos(), ok, "the hashed bytes are not c14n.CanonicalJSON(json.Marshal(<receiver>.Document)) of the whole document object")
		}
	}
	if len(digestFn) == 0 {
		c.Ob("C08-R3", "UNRESOLVED:digest-function", token.NoPos, false, "no function of the root package calls dsig.NewSHA256Digest")
	}
	// NewSHA256Digest hashes its whole argument
	if fd := p.Func("dsig", "", "NewSHA256Digest"); fd != nil {
		info := fd.Pkg.TypesInfo
		param := fd.Obj.Type().(*types.Signature).Params().At(0)
		ld := core.NewLocalDefs(info, fd.Decl.Body)
		// the sum: sha256.Sum256(data), or h.Sum(nil) of a hasher h := sha256.New() that was
		// written exactly once, unconditionally and before, with data
		var sumExprs []ast.Expr
		ok := false
		why := "no SHA-256 sum of the data parameter found"
		sums := core.CallsTo(info, fd.Decl.Body, func(f *types.Func) bool { return core.IsFunc(f, "crypto/sha256", "", "Sum256") })
		news := core.CallsTo(info, fd.Decl.Body, func(f *types.Func) bool { return core.IsFunc(f, "crypto/sha256", "", "New") })
		switch {
		case len(sums) == 1 && len(news) == 0:
			ok = core.VarOf(info, sums[0].Args[0]) == param
			why = "sha256.Sum256 is not applied to the whole data parameter"
			sumExprs = append(sumExprs, sums[0])
		case len(sums) == 0 && len(news) == 1:
			// the hasher variable
			var h *types.Var
			ast.Inspect(fd.Decl.Body, func(n ast.Node) bool {
				if as, isAs := n.(*ast.AssignStmt); isAs && len(as.Lhs) == 1 && len(as.Rhs) == 1 && ast.Unparen(as.Rhs[0]) == ast.Expr(news[0]) {
					h = core.VarOf(info, as.Lhs[0])
				}
				return true
			})
			if h == nil || len(ld.All(h)) != 1 {
				why = "the hasher made by sha256.New is not kept in one local variable"
				break
			}
			var writes, finals []*ast.CallExpr
			other := false
			ast.Inspect(fd.Decl.Body, func(n ast.Node) bool {
				switch x := n.(type) {
				case *ast.CallExpr:
					if se, isSel := ast.Unparen(x.Fun).(*ast.SelectorExpr); isSel && core.VarOf(info, se.X) == h {
						switch se.Sel.Name {
						case "Write":
							writes = append(writes, x)
						case "Sum":
							finals = append(finals, x)
						default:
							other = true // Reset, WriteString through an interface, …
						}
						return true
					}
					for _, a := range x.Args {
						if core.VarOf(info, a) == h {
							other = true // handed to something else that may write to it
						}
					}
				}
				return true
			})
			switch {
			case other:
				why = "the hasher is used in ways other than one Write and one Sum"
			case len(writes) != 1 || len(writes[0].Args) != 1 || core.VarOf(info, writes[0].Args[0]) != param:
				why = "the hasher is not written exactly once with the whole data parameter"
			case len(finals) != 1 || len(finals[0].Args) != 1 || !core.IsNil(info, finals[0].Args[0]):
				why = "the sum is not taken exactly once as h.Sum(nil)"
			default:
				// the write stands directly in the function body, before the statement holding the sum
				wi, si := -1, -1
				for i, st := range fd.Decl.Body.List {
					if st.Pos() <= writes[0].Pos() && writes[0].End() <= st.End() {
						switch st.(type) {
						case *ast.ExprStmt, *ast.AssignStmt:
							wi = i
						}
					}
					if st.Pos() <= finals[0].Pos() && finals[0].End() <= st.End() {
						si = i
					}
				}
				ok = wi >= 0 && si > wi
				why = "the write of the data does not stand unconditionally before the sum is taken"
				sumExprs = append(sumExprs, finals[0])
			}
		case len(sums)+len(news) > 1:
			why = "more than one SHA-256 computation"
		}
		c.Ob("C08-R3", fd.Name()+"#sum-input", fd.Decl.Pos(), ok, why)
		// the value returned derives from the sum: the Value of the digest is hex.EncodeToString
		// of the sum (sliced or not), directly or through locals
		okv := false
		if ok {
			fromSum := func(e ast.Expr) bool {
				srcs := valueSources(info, ld, e, 0)
				if len(srcs) != 1 {
					return false
				}
				cl, isCall := srcs[0].(*ast.CallExpr)
				if !isCall || !core.IsFunc(core.Callee(info, cl), "encoding/hex", "", "EncodeToString") || len(cl.Args) != 1 {
					return false
				}
				arg := ast.Unparen(cl.Args[0])
				if se, isSlice := arg.(*ast.SliceExpr); isSlice && se.Low == nil && se.High == nil {
					arg = ast.Unparen(se.X)
				}
				as := valueSources(info, ld, arg, 0)
				return len(as) == 1 && as[0] == sumExprs[0]
			}
			nVal := 0
			okAllVals := true
			ast.Inspect(fd.Decl.Body, func(n ast.Node) bool {
				switch x := n.(type) {
				case *ast.KeyValueExpr:
					if id, isID := x.Key.(*ast.Ident); isID && id.Name == "Value" {
						nVal++
						if !fromSum(x.Value) {
							okAllVals = false
						}
					}
				case *ast.AssignStmt:
					for i, l := range x.Lhs {
						if f := core.FieldOf(info, l); f != nil && f.Name() == "Value" && i < len(x.Rhs) && len(x.Lhs) == len(x.Rhs) {
							nVal++
							if !fromSum(x.Rhs[i]) {
								okAllVals = false
							}
						}
					}
				}
				return true
			})
			okv = nVal > 0 && okAllVals
		}
		c.Ob("C08-R3", fd.Name()+"#value-from-sum", fd.Decl.Pos(), okv, "the digest Value does not derive from the SHA-256 sum")
	} else {
		c.Ob("C08-R3", "UNRESOLVED:dsig.NewSHA256Digest", token.NoPos, false, "function not found")
	}
	// header digest assigned after document calculation
	for _, fd := range p.Funcs(root) {
		info := fd.Pkg.TypesInfo
		recv := recvVar(fd)
		if recv == nil {
			continue
		}
		ff := (*core.FuncFlow)(nil)
		ast.Inspect(fd.Decl.Body, func(n ast.Node) bool {
			as, ok := n.(*ast.AssignStmt)
			if !ok || len(as.Rhs) != 1 {
				return true
			}
			cl, ok := ast.Unparen(as.Rhs[0]).(*ast.CallExpr)
			if !ok {
				return true
			}
			if fn := core.Callee(info, cl); fn == nil || !digestFn[fn] {
				return true
			}
			r, path := core.FieldPath(info, as.Lhs[0])
			if r != recv || path != "Head.Digest" {
				return true
			}
			if ff == nil {
				ff = core.NewFuncFlow(fd)
			}
			key := fd.Name() + "#store-digest"
			passed := ff.Flow.PassedAt(ff.Flow.EnclosingNode(as))
			calcPassed := false
			for pc := range passed {
				if fn := core.Callee(info, pc); fn != nil && fn.Name() == "Calculate" {
					if rr, pp := core.FieldPath(info, core.RecvExpr(pc)); rr == recv && pp == "Document" {
						calcPassed = true
					}
				}
			}
			// no later call on the document
			later := false
			ast.Inspect(fd.Decl.Body, func(m ast.Node) bool {
				if c2, ok := m.(*ast.CallExpr); ok && c2.Pos() > as.End() {
					if rr, pp := core.FieldPath(info, core.RecvExpr(c2)); rr == recv && pp == "Document" {
						later = true
					}
				}
				return true
			})
			c.Ob("C08-R3", key, as.Pos(), calcPassed && !later,
				"the header digest is not stored after <receiver>.Document.Calculate() on every path, or the document is touched afterwards")
			return true
		})
	}

	// R4: blind fields
	blindFields(c, "C08-R4")

	// R5: the schema member of the document object
	c.Rule("C08-R5", "schema.Object keeps the document's own $schema: unmarshalling assigns it only from the input bytes, marshalling inserts it", 2)
	schemaObjectRule(c, "C08-R5")
	c08RawJSON(c)
	c08ValidateReadOnly(c)

	// R6: the canonical string encoder leaves nothing out
	c08Segments(c)
	// R10: the canonical form keeps every array element (shared with C07-R9)
	c.Rule("C08-R10", "the canonical form the digest is taken of keeps every array element (shared with C07-R9)", 1)
	sub := core.NewCtx("C07", c.Tier, c.Seed, c.P, c.VerifDir)
	sub.Quiet = true
	c07ArrayComplete(sub)
	for _, o := range sub.Obligations() {
		if o.Rule == "C07-R9" {
			c.ObAt("C08-R10", o.Key, o.Pos, o.OK, o.Msg)
		}
	}
}

// mustPassBeforeSuccess checks that the call has been executed on every path to
// every success return (or is itself the returned error).
func mustPassBeforeSuccess(p *core.Program, ff *core.FuncFlow, call *ast.CallExpr) string {
	for _, r := range ff.Flow.Returns() {
		if !ff.Flow.Reachable(r) {
			continue
		}
		k, tc := ff.ClassifyReturn(p, r)
		switch k {
		case core.RetFailure:
			continue
		case core.RetTransfer:
			if tc == call {
				continue
			}
			if ff.Flow.PassedAt(r)[call] && ff.ErrNilAt(r, call) == 1 {
				continue // the check passed before the verdict is handed on
			}
			return fmt.Sprintf("return at %s hands the verdict to another call without passing through the check", p.Rel(r.Pos()))
		case core.RetUnknown:
			if !ff.Flow.PassedAt(r)[call] {
				return fmt.Sprintf("return at %s with undetermined error is reachable without the check", p.Rel(r.Pos()))
			}
		case core.RetSuccess:
			if !ff.Flow.PassedAt(r)[call] {
				return fmt.Sprintf("success return at %s is reachable without passing through the check", p.Rel(r.Pos()))
			}
		}
	}
	return ""
}

// schemaObjectRule: in schema.(*Object).UnmarshalJSON every assignment to the
// Schema field takes its value from a call on the input bytes; the payload type
// is derived from that field; MarshalJSON inserts the Schema field.
func schemaObjectRule(c *core.Ctx, rule string) {
	p := c.P
	fd := p.Func("schema", "Object", "UnmarshalJSON")
	if fd == nil {
		c.Ob(rule, "UNRESOLVED:schema.Object.UnmarshalJSON", token.NoPos, false, "method not found")
		return
	}
	info := fd.Pkg.TypesInfo
	recv := recvVar(fd)
	data := fd.Obj.Type().(*types.Signature).Params().At(0)
	n := 0
	okAll := true
	ld := core.NewLocalDefs(info, fd.Decl.Body)
	// a local defined once stands for its definition
	resolve := func(e ast.Expr) ast.Expr {
		e = ast.Unparen(e)
		for i := 0; i < 3; i++ {
			v := core.VarOf(info, e)
			if v == nil || v.IsField() {
				break
			}
			ds := ld.All(v)
			if len(ds) != 1 || ds[0].RHS == nil {
				break
			}
			e = ast.Unparen(ds[0].RHS)
		}
		return e
	}
	schemaVars := map[*types.Var]bool{} // locals stored into the Schema field
	ast.Inspect(fd.Decl.Body, func(m ast.Node) bool {
		as, ok := m.(*ast.AssignStmt)
		if !ok {
			return true
		}
		for i, l := range as.Lhs {
			if !core.IsFieldOfVar(info, l, recv, "Schema") {
				continue
			}
			n++
			rhs := as.Rhs[0]
			if len(as.Rhs) == len(as.Lhs) {
				rhs = as.Rhs[i]
			}
			if v := core.VarOf(info, rhs); v != nil && !v.IsField() {
				schemaVars[v] = true
			}
			fromData := false
			if call, ok := resolve(rhs).(*ast.CallExpr); ok {
				for _, a := range call.Args {
					if core.VarOf(info, a) == data {
						fromData = true
					}
				}
				if fn := core.Callee(info, call); fromData && fn != nil && core.InModule(fn.Pkg()) {
					schemaExtractRule(c, rule, fn)
				}
			}
			if !fromData {
				okAll = false
				c.Ob(rule, fmt.Sprintf("%s#schema-store%d", fd.Name(), n), as.Pos(), false,
					"the object's Schema is assigned from something other than the input bytes: the document's own $schema member is rewritten on load, so an edited $schema can go unnoticed by the digest")
			}
		}
		return true
	})
	if n == 0 {
		c.Ob(rule, fd.Name()+"#schema-store", fd.Decl.Pos(), false, "UnmarshalJSON never stores the Schema field")
	} else if okAll {
		c.Ob(rule, fd.Name()+"#schema-store", fd.Decl.Pos(), true, "")
	}
	// the payload instance comes from the stored schema
	okPayload := false
	ast.Inspect(fd.Decl.Body, func(m ast.Node) bool {
		as, ok := m.(*ast.AssignStmt)
		if !ok || len(as.Lhs) == 0 || !core.IsFieldOfVar(info, as.Lhs[0], recv, "payload") || len(as.Rhs) == 0 {
			return true
		}
		isStored := func(r ast.Expr) bool {
			if r == nil {
				return false
			}
			if core.IsFieldOfVar(info, r, recv, "Schema") {
				return true
			}
			if v := core.VarOf(info, r); v != nil && schemaVars[v] && len(ld.All(v)) == 1 {
				return true // the very value stored in the Schema field
			}
			return false
		}
		if call, ok := resolve(as.Rhs[0]).(*ast.CallExpr); ok {
			if isStored(core.RecvExpr(call)) {
				okPayload = true
			}
			// a constructor of the package that is handed the stored schema and asks it for the instance
			if fn := core.Callee(info, call); fn != nil && fn.Pkg() == fd.Obj.Pkg() {
				if cfd := p.DeclOf(fn); cfd != nil && cfd.Decl.Body != nil {
					csig := fn.Type().(*types.Signature)
					for i, a := range call.Args {
						if !isStored(a) || i >= csig.Params().Len() {
							continue
						}
						pv := csig.Params().At(i)
						ast.Inspect(cfd.Decl.Body, func(k ast.Node) bool {
							if c2, ok := k.(*ast.CallExpr); ok {
								if re := core.RecvExpr(c2); re != nil && core.VarOf(cfd.Pkg.TypesInfo, re) == pv {
									if f2 := core.Callee(cfd.Pkg.TypesInfo, c2); f2 != nil && f2.Name() == "Interface" {
										okPayload = true
									}
								}
							}
							return true
						})
					}
				}
			}
		}
		return true
	})
	c.Ob(rule, fd.Name()+"#payload-from-schema", fd.Decl.Pos(), okPayload, "the payload instance is not derived from the stored Schema")
	if mfd := p.Func("schema", "Object", "MarshalJSON"); mfd != nil {
		minfo := mfd.Pkg.TypesInfo
		mrecv := recvVar(mfd)
		ok := false
		for _, call := range core.CallsTo(minfo, mfd.Decl.Body, func(f *types.Func) bool { return core.IsFunc(f, core.ModPath+"/schema", "", "Insert") }) {
			if len(call.Args) >= 1 && core.IsFieldOfVar(minfo, call.Args[0], mrecv, "Schema") {
				ok = true
			}
		}
		c.Ob(rule, mfd.Name()+"#inserts-schema", mfd.Decl.Pos(), ok, "MarshalJSON does not insert the object's Schema into the serialised payload")
	} else {
		c.Ob(rule, "UNRESOLVED:schema.Object.MarshalJSON", token.NoPos, false, "method not found")
	}
}

// schemaExtractRule: the function that reads the $schema of raw bytes returns,
// on success, a member of a value decoded from those bytes by encoding/json
// whose error was found nil. The decoder selects the top-level member whatever
// the member order; any other way of locating "$schema" in the text (pattern
// match, scan) can pick a nested object's member once members are re-ordered.
func schemaExtractRule(c *core.Ctx, rule string, fn *types.Func) {
	p := c.P
	fd := p.DeclOf(fn)
	if fd == nil {
		c.Ob(rule, "UNRESOLVED:"+core.FuncName(fn), token.NoPos, false, "no body")
		return
	}
	info := fd.Pkg.TypesInfo
	sig := fn.Type().(*types.Signature)
	if sig.Params().Len() < 1 || core.ErrResultIndex(sig) < 0 {
		c.Undecided(rule, fd.Name()+"#decoded", fd.Decl.Pos(), "unexpected signature")
		return
	}
	data := sig.Params().At(0)
	ff := core.NewFuncFlow(fd)
	decodes := core.CallsTo(info, fd.Decl.Body, func(f *types.Func) bool {
		return f.Pkg() != nil && f.Pkg().Path() == "encoding/json" && (f.Name() == "Unmarshal" || f.Name() == "Decode")
	})
	n := 0
	for _, r := range ff.Flow.Returns() {
		if !ff.Flow.Reachable(r) || len(r.Results) == 0 {
			continue
		}
		if k, _ := ff.ClassifyReturn(p, r); k == core.RetFailure {
			continue
		}
		n++
		ok := false
		root, _ := core.FieldPath(info, r.Results[0])
		for _, d := range decodes {
			if len(d.Args) == 2 && core.VarOf(info, d.Args[0]) == data && root != nil && core.RootVar(info, d.Args[1]) == root &&
				ff.Flow.PassedAt(r)[d] && ff.ErrNilAt(r, d) == 1 {
				ok = true
			}
		}
		c.Ob(rule, fmt.Sprintf("%s#decoded%d", fd.Name(), n), r.Pos(), ok,
			"the schema ID returned here is not a member of a value decoded from the input by encoding/json with its error checked: the top-level $schema may be confused with a nested one when members are re-ordered")
	}
	if n == 0 {
		c.Ob(rule, fd.Name()+"#decoded", fd.Decl.Pos(), false, "no success return")
	}
}
