package props

import (
	"fmt"
	"go/ast"
	"go/constant"
	"go/token"
	"go/types"
	"sort"
	"strings"

	"goblcheck/core"
)

func init() { register("C05", C05) }

// linear form over symbolic exponents; key "1" is the constant term.
type lin map[string]int

func (l lin) add(o lin, k int) lin {
	r := lin{}
	for s, c := range l {
		r[s] += c
	}
	for s, c := range o {
		r[s] += k * c
	}
	for s, c := range r {
		if c == 0 {
			delete(r, s)
		}
	}
	return r
}

func (l lin) eq(o lin) bool { return len(l.add(o, -1)) == 0 }

func (l lin) String() string {
	if len(l) == 0 {
		return "0"
	}
	var ks []string
	for k := range l {
		ks = append(ks, k)
	}
	sort.Strings(ks)
	var parts []string
	for _, k := range ks {
		c := l[k]
		switch {
		case k == "1":
			parts = append(parts, fmt.Sprint(c))
		case c == 1:
			parts = append(parts, k)
		case c == -1:
			parts = append(parts, "-"+k)
		default:
			parts = append(parts, fmt.Sprintf("%d·%s", c, k))
		}
	}
	return strings.Join(parts, " + ")
}

// scaleEnv evaluates decimal scales inside one function of package num.
type scaleEnv struct {
	c       *core.Ctx
	fd      *core.FuncDecl
	info    *types.Info
	amtExp  map[*types.Var]lin // exponent of Amount-typed variables
	valForm map[*types.Var]lin // value of exponent-typed (uint32/int) variables
	scale   map[*types.Var]lin // decimal scale of quantity variables (int64/float64)
	amtVal  map[*types.Var]lin // scale of an Amount variable's value while it is set apart from its exponent
	nOb     int
	paths   int
	buf     *obBuf
	onReturn func(*ast.ReturnStmt)
	ff      *core.FuncFlow
	depth   int
}

// resultExp is the documented result precision of the Amount operations:
// "recv" = the receiver's, "argN" = the N-th argument.
var resultExp = map[string]string{
	"Add": "recv", "Subtract": "recv", "Multiply": "recv", "Divide": "recv",
	"Rescale": "arg0", "Negate": "recv", "Invert": "recv", "AmountFromFloat64": "arg1",
	"MakeAmount": "arg1",
}

func isAmountType(t types.Type) bool { return t != nil && core.TypeString(t) == "num.Amount" }

func (e *scaleEnv) expOfAmount(x ast.Expr) (lin, bool) {
	x = ast.Unparen(x)
	switch v := x.(type) {
	case *ast.Ident:
		if vr := core.VarOf(e.info, v); vr != nil {
			f := e.expOfVar(vr)
			if vs, apart := e.amtVal[vr]; apart {
				// the variable is used as a whole amount: its value must be at its exponent's scale
				e.ob(v.Pos(), "consistent:"+vr.Name(), vs.eq(f),
					fmt.Sprintf("the amount %s is used with a value at scale %s but exponent %s: the result is off by a power of ten", vr.Name(), vs, f))
			}
			return f, true
		}
	case *ast.CallExpr:
		fn := core.Callee(e.info, v)
		if fn == nil {
			return nil, false
		}
		switch resultExp[fn.Name()] {
		case "recv":
			return e.expOfAmount(core.RecvExpr(v))
		case "arg0":
			return e.expValue(v.Args[0])
		case "arg1":
			return e.expValue(v.Args[1])
		}
		// the one-sided rescalers: the larger (smaller) of the receiver's exponent and the
		// argument — their bodies are decided on their own (c05Extremum)
		if isAmountMethod(fn, "RescaleUp") || isAmountMethod(fn, "RescaleDown") || isAmountMethod(fn, "MatchPrecision") {
			if len(v.Args) != 1 {
				return nil, false
			}
			a, ok1 := e.expOfAmount(core.RecvExpr(v))
			var b lin
			var ok2 bool
			if fn.Name() == "MatchPrecision" {
				b, ok2 = e.expOfAmount(v.Args[0])
			} else {
				b, ok2 = e.expValue(v.Args[0])
			}
			if !ok1 || !ok2 {
				return nil, false
			}
			op := "max"
			if fn.Name() == "RescaleDown" {
				op = "min"
			}
			return extremum(op, a, b), true
		}
		if rs, ok := e.callHelper(v); ok && len(rs) >= 1 && isAmountType(fn.Type().(*types.Signature).Results().At(0).Type()) {
			return rs[0], true
		}
	case *ast.CompositeLit:
		if _, ef, ok := e.literal(v); ok {
			return ef, true
		}
	}
	return nil, false
}

// callHelper evaluates a call of a function of package num that is not one of
// the documented operations: its body is walked with the receiver and the
// parameters standing for what the caller passed, and the forms of the results
// are handed back when every return agrees on them (amounts: exponent form;
// exponent-typed results: value form; other numbers: decimal scale).
func (e *scaleEnv) callHelper(call *ast.CallExpr) ([]lin, bool) {
	fn := core.Callee(e.info, call)
	if fn == nil || !core.InModule(fn.Pkg()) || e.depth > 3 {
		return nil, false
	}
	cfd := e.c.P.DeclOf(fn)
	if cfd == nil || cfd.Decl.Body == nil || core.RelPkg(fn.Pkg().Path()) != "num" {
		return nil, false
	}
	if _, documented := resultExp[fn.Name()]; documented {
		return nil, false
	}
	sub := &scaleEnv{c: e.c, fd: cfd, info: cfd.Pkg.TypesInfo, amtExp: map[*types.Var]lin{}, valForm: map[*types.Var]lin{}, scale: map[*types.Var]lin{}, amtVal: map[*types.Var]lin{}, depth: e.depth + 1}
	// the helper's obligations count for the caller: what it compares or adds are the caller's quantities
	if e.buf == nil {
		e.buf = &obBuf{m: map[string]*bufOb{}}
	}
	sub.buf = e.buf
	defer func() { e.nOb += sub.nOb }()
	bind := func(pv *types.Var, arg ast.Expr) bool {
		if pv == nil || arg == nil {
			return true
		}
		switch {
		case isAmountType(pv.Type()):
			f, ok := e.expOfAmount(arg)
			if !ok {
				return false
			}
			sub.amtExp[pv] = f
			if vr := e.amountVar(arg); vr != nil {
				if vs, apart := e.amtVal[vr]; apart {
					sub.amtVal[pv] = vs
				}
			}
		default:
			b, _ := pv.Type().Underlying().(*types.Basic)
			if b == nil {
				return true
			}
			if b.Kind() == types.Uint32 || b.Kind() == types.Int {
				f, ok := e.expValue(arg)
				if !ok {
					return false
				}
				sub.valForm[pv] = f
			} else if b.Info()&(types.IsInteger|types.IsFloat) != 0 {
				if f, ok := e.quantity(arg); ok {
					sub.scale[pv] = f
				}
			}
		}
		return true
	}
	if rv := recvVar(cfd); rv != nil {
		if !bind(rv, core.RecvExpr(call)) {
			return nil, false
		}
	}
	csig := fn.Type().(*types.Signature)
	if csig.Variadic() {
		return nil, false
	}
	for i := 0; i < csig.Params().Len() && i < len(call.Args); i++ {
		if !bind(csig.Params().At(i), call.Args[i]) {
			return nil, false
		}
	}
	var results [][]lin
	okAll := true
	sub.onReturn = func(r *ast.ReturnStmt) {
		if len(r.Results) != csig.Results().Len() {
			okAll = false
			return
		}
		var row []lin
		for i, x := range r.Results {
			var f lin
			ok := false
			rt := csig.Results().At(i).Type()
			switch {
			case isAmountType(rt):
				if cl, isLit := ast.Unparen(x).(*ast.CompositeLit); isLit {
					_, f, ok = sub.literal(cl)
				} else {
					f, ok = sub.expOfAmount(x)
				}
			default:
				if b, _ := rt.Underlying().(*types.Basic); b != nil && (b.Kind() == types.Uint32 || b.Kind() == types.Int) {
					f, ok = sub.expValue(x)
				} else {
					f, ok = sub.quantity(x)
				}
			}
			if !ok {
				okAll = false
				return
			}
			row = append(row, f)
		}
		results = append(results, row)
	}
	sub.stmts(cfd.Decl.Body.List)
	if !okAll || len(results) == 0 {
		return nil, false
	}
	for _, row := range results[1:] {
		for i := range row {
			if !row[i].eq(results[0][i]) {
				return nil, false
			}
		}
	}
	return results[0], true
}

func (e *scaleEnv) expOfVar(vr *types.Var) lin {
	if f, ok := e.amtExp[vr]; ok {
		return f
	}
	return lin{vr.Name() + ".exp": 1}
}

// amountVar: x is a plain Amount-typed variable (not a field).
func (e *scaleEnv) amountVar(x ast.Expr) *types.Var {
	id, ok := ast.Unparen(x).(*ast.Ident)
	if !ok {
		return nil
	}
	vr := core.VarOf(e.info, id)
	if vr == nil || vr.IsField() || !isAmountType(vr.Type()) {
		return nil
	}
	return vr
}

// expValue: the value of an exponent-typed expression as a linear form.
func (e *scaleEnv) expValue(x ast.Expr) (lin, bool) {
	x = ast.Unparen(x)
	if tv, ok := e.info.Types[x]; ok && tv.Value != nil {
		var n int
		fmt.Sscan(tv.Value.ExactString(), &n)
		if n == 0 {
			return lin{}, true
		}
		return lin{"1": n}, true
	}
	switch v := x.(type) {
	case *ast.Ident:
		vr := core.VarOf(e.info, v)
		if vr == nil {
			return nil, false
		}
		if f, ok := e.valForm[vr]; ok {
			return f, true
		}
		return lin{vr.Name(): 1}, true
	case *ast.SelectorExpr:
		if f := core.FieldOf(e.info, v); f != nil && f.Name() == "exp" {
			if vr := e.amountVar(v.X); vr != nil {
				return e.expOfVar(vr), true
			}
			return e.expOfAmount(v.X)
		}
	case *ast.CallExpr:
		if tv, ok := e.info.Types[v.Fun]; ok && tv.IsType() && len(v.Args) == 1 {
			return e.expValue(v.Args[0])
		}
		if fn := core.Callee(e.info, v); fn != nil && fn.Name() == "Exp" {
			return e.expOfAmount(core.RecvExpr(v))
		}
		if id, ok := v.Fun.(*ast.Ident); ok && (id.Name == "max" || id.Name == "min") {
			if _, isB := e.info.Uses[id].(*types.Builtin); isB {
				var forms []lin
				for _, a := range v.Args {
					f, ok := e.expValue(a)
					if !ok {
						return lin{types.ExprString(v): 1}, true // one common, otherwise unknown, exponent
					}
					forms = append(forms, f)
				}
				return extremum(id.Name, forms...), true
			}
		}
	case *ast.BinaryExpr:
		a, ok1 := e.expValue(v.X)
		b, ok2 := e.expValue(v.Y)
		if ok1 && ok2 {
			switch v.Op {
			case token.ADD:
				return a.add(b, 1), true
			case token.SUB:
				return a.add(b, -1), true
			}
		}
	}
	return nil, false
}

// quantity: the decimal scale of a quantity expression.
func (e *scaleEnv) quantity(x ast.Expr) (lin, bool) {
	x = ast.Unparen(x)
	if tv, ok := e.info.Types[x]; ok && tv.Value != nil {
		return lin{}, true
	}
	switch v := x.(type) {
	case *ast.Ident:
		vr := core.VarOf(e.info, v)
		if vr == nil {
			return nil, false
		}
		if f, ok := e.scale[vr]; ok {
			return f, true
		}
		if _, isParam := paramIndex(e.fd.Obj, vr); isParam {
			return lin{}, true // plain numbers handed in by the caller are dimensionless
		}
		return nil, false
	case *ast.SelectorExpr:
		if f := core.FieldOf(e.info, v); f != nil && f.Name() == "value" {
			if vr := e.amountVar(v.X); vr != nil {
				if vs, apart := e.amtVal[vr]; apart {
					return vs, true
				}
				return e.expOfVar(vr), true
			}
			return e.expOfAmount(v.X)
		}
	case *ast.UnaryExpr:
		if v.Op == token.SUB || v.Op == token.ADD {
			return e.quantity(v.X)
		}
	case *ast.CallExpr:
		if tv, ok := e.info.Types[v.Fun]; ok && tv.IsType() && len(v.Args) == 1 {
			return e.quantity(v.Args[0])
		}
		fn := core.Callee(e.info, v)
		if fn != nil && fn.Pkg() != nil && fn.Pkg().Path() == "math" && fn.Name() == "Round" {
			return e.quantity(v.Args[0])
		}
		if fn != nil && fn.Name() == "intPow" && len(v.Args) == 2 {
			return e.expValue(v.Args[1])
		}
		if fn != nil && fn.Name() == "Value" {
			return e.expOfAmount(core.RecvExpr(v))
		}
		// a one-line accessor of package num on an amount (Float64): evaluate its
		// return expression with the receiver bound to the actual amount
		if fn != nil && core.InModule(fn.Pkg()) && core.RecvExpr(v) != nil && isAmountType(e.info.TypeOf(core.RecvExpr(v))) {
			if cfd := e.c.P.DeclOf(fn); cfd != nil && len(cfd.Decl.Body.List) == 1 {
				if r, ok := cfd.Decl.Body.List[0].(*ast.ReturnStmt); ok && len(r.Results) == 1 {
					if rexp, ok := e.expOfAmount(core.RecvExpr(v)); ok {
						sub := &scaleEnv{c: e.c, fd: cfd, info: cfd.Pkg.TypesInfo, amtExp: map[*types.Var]lin{}, valForm: map[*types.Var]lin{}, scale: map[*types.Var]lin{}, amtVal: map[*types.Var]lin{}}
						if rv := recvVar(cfd); rv != nil {
							sub.amtExp[rv] = rexp
						}
						// exponent-typed parameters stand for what was passed
						csig := fn.Type().(*types.Signature)
						for i := 0; i < csig.Params().Len() && i < len(v.Args); i++ {
							pv := csig.Params().At(i)
							if isAmountType(pv.Type()) {
								if af, ok := e.expOfAmount(v.Args[i]); ok {
									sub.amtExp[pv] = af
								}
							} else if af, ok := e.expValue(v.Args[i]); ok {
								sub.valForm[pv] = af
							}
						}
						if e.buf == nil {
							e.buf = &obBuf{m: map[string]*bufOb{}}
						}
						sub.buf = e.buf
						return sub.quantity(r.Results[0])
					}
				}
			}
		}
		if fn != nil {
			if rs, ok := e.callHelper(v); ok && len(rs) >= 1 && !isAmountType(fn.Type().(*types.Signature).Results().At(0).Type()) {
				return rs[0], true
			}
		}
	case *ast.BinaryExpr:
		a, ok1 := e.quantity(v.X)
		b, ok2 := e.quantity(v.Y)
		if !ok1 || !ok2 {
			return nil, false
		}
		switch v.Op {
		case token.MUL:
			return a.add(b, 1), true
		case token.QUO:
			return a.add(b, -1), true
		case token.ADD, token.SUB:
			e.ob(v.Pos(), fmt.Sprintf("%s: %s", types.ExprString(v), opName(v.Op)), a.eq(b),
				fmt.Sprintf("operands of %s have different decimal scales (%s vs %s): one operand was not rescaled to the other's precision", v.Op, a, b))
			return a, true
		}
	}
	return nil, false
}

// extremum is the canonical form of max / min over exponent forms: nested
// extrema of the same kind are flattened, operands de-duplicated and sorted, a
// single operand stands for itself.
func extremum(op string, forms ...lin) lin {
	set := map[string]lin{}
	var add func(f lin)
	add = func(f lin) {
		if len(f) == 1 {
			for k, c := range f {
				if c == 1 && strings.HasPrefix(k, op+"(") && strings.HasSuffix(k, ")") {
					// split the top-level operands
					inner := k[len(op)+1 : len(k)-1]
					depth, start := 0, 0
					for i := 0; i <= len(inner); i++ {
						if i == len(inner) || (inner[i] == ',' && depth == 0) {
							set[inner[start:i]] = lin{inner[start:i]: 1}
							start = i + 1
							continue
						}
						switch inner[i] {
						case '(':
							depth++
						case ')':
							depth--
						}
					}
					return
				}
			}
		}
		set[f.String()] = f
	}
	for _, f := range forms {
		add(f)
	}
	var ks []string
	for k := range set {
		ks = append(ks, k)
	}
	sort.Strings(ks)
	if len(ks) == 1 {
		return set[ks[0]]
	}
	return lin{op + "(" + strings.Join(ks, ",") + ")": 1}
}

func opName(t token.Token) string {
	switch t {
	case token.ADD:
		return "sum"
	case token.SUB:
		return "difference"
	}
	return "comparison"
}

// obBuf holds the obligations of one function while its paths are evaluated:
// an obligation met on several paths holds if it holds on each.
type obBuf struct {
	order []string
	m     map[string]*bufOb
}

type bufOb struct {
	pos token.Pos
	ok  bool
	msg string
}

func (e *scaleEnv) ob(pos token.Pos, what string, ok bool, msg string) {
	e.nOb++
	if e.buf == nil {
		e.buf = &obBuf{m: map[string]*bufOb{}}
	}
	k := fmt.Sprintf("%s#%s@%d", e.fd.Name(), what, pos)
	if o := e.buf.m[k]; o != nil {
		if o.ok && !ok {
			o.ok, o.msg = false, msg
		}
		return
	}
	e.buf.order = append(e.buf.order, k)
	e.buf.m[k] = &bufOb{pos: pos, ok: ok, msg: msg}
}

// flush records the buffered obligations.
func (e *scaleEnv) flush() {
	if e.buf == nil {
		return
	}
	for _, k := range e.buf.order {
		o := e.buf.m[k]
		e.c.Ob("C05-R2", k[:strings.LastIndex(k, "@")], o.pos, o.ok, o.msg)
	}
	e.buf = nil
}

// literal checks Amount{V, E} / Amount{value: V, exp: E}.
func (e *scaleEnv) literal(cl *ast.CompositeLit) (lin, lin, bool) {
	if !isAmountType(e.info.TypeOf(cl)) || len(cl.Elts) == 0 {
		return nil, nil, false
	}
	var vx, ex ast.Expr
	for i, el := range cl.Elts {
		if kv, ok := el.(*ast.KeyValueExpr); ok {
			kid, isID := kv.Key.(*ast.Ident)
			if !isID {
				continue
			}
			switch kid.Name {
			case "value":
				vx = kv.Value
			case "exp":
				ex = kv.Value
			}
		} else if i == 0 {
			vx = el
		} else if i == 1 {
			ex = el
		}
	}
	if vx == nil && ex == nil {
		return nil, nil, false
	}
	if vx == nil {
		// Amount{exp: E}: the value is zero, which is at any scale
		ef, ok := e.expValue(ex)
		if !ok {
			return nil, nil, false
		}
		return ef, ef, true
	}
	vs, ok1 := e.quantity(vx)
	ef, ok2 := lin{}, true // Amount{value: V}: exponent zero
	if ex != nil {
		ef, ok2 = e.expValue(ex)
	}
	if !ok1 || !ok2 {
		e.c.Undecided("C05-R2", fmt.Sprintf("%s#literal@%s", e.fd.Name(), types.ExprString(cl)), cl.Pos(), "cannot evaluate the scale of the value or the exponent expression")
		return nil, nil, false
	}
	e.ob(cl.Pos(), "literal:"+types.ExprString(cl), vs.eq(ef),
		fmt.Sprintf("the amount is built with a value at scale %s but labelled with exponent %s: the result is off by a power of ten", vs, ef))
	return vs, ef, true
}

// stmts evaluates a statement list path by path: what follows an if or switch
// is evaluated once under each branch's facts (the functions of package num are
// a few lines long), so that facts established differently on each branch — both
// operands brought to one exponent, whichever it is — are not lost at the join.
// The result tells whether every path through the list ends in a return.
func (e *scaleEnv) stmts(list []ast.Stmt) bool {
	for i, s := range list {
		switch st := s.(type) {
		case *ast.DeclStmt:
			if gd, ok := st.Decl.(*ast.GenDecl); ok {
				for _, sp := range gd.Specs {
					if vs, ok := sp.(*ast.ValueSpec); ok && len(vs.Names) == len(vs.Values) {
						for j, nm := range vs.Names {
							e.assign(nm, vs.Values[j])
						}
					}
				}
			}
		case *ast.AssignStmt:
			if st.Tok != token.ASSIGN && st.Tok != token.DEFINE {
				if len(st.Lhs) == 1 && len(st.Rhs) == 1 {
					e.opAssign(st.Lhs[0], st.Tok, st.Rhs[0])
				}
			} else if len(st.Lhs) == len(st.Rhs) {
				for i, l := range st.Lhs {
					e.assign(l, st.Rhs[i])
				}
			} else if len(st.Rhs) == 1 {
				// a, a2 = rescaleAmountPair(a, a2): both get one common exponent
				if call, ok := ast.Unparen(st.Rhs[0]).(*ast.CallExpr); ok {
					if rs, ok := e.callHelper(call); ok && len(rs) == len(st.Lhs) {
						for i, l := range st.Lhs {
							v := core.VarOf(e.info, l)
							if v == nil {
								if id, isID := l.(*ast.Ident); isID {
									v, _ = e.info.Defs[id].(*types.Var)
								}
							}
							if v == nil {
								continue
							}
							delete(e.amtVal, v)
							if isAmountType(v.Type()) {
								e.amtExp[v] = rs[i]
							} else if b, _ := v.Type().Underlying().(*types.Basic); b != nil && (b.Kind() == types.Uint32 || b.Kind() == types.Int) {
								e.valForm[v] = rs[i]
							} else {
								e.scale[v] = rs[i]
							}
						}
					} else if fn := core.Callee(e.info, call); fn != nil && commonExpPair(e.c, fn) {
						for _, l := range st.Lhs {
							if v := core.VarOf(e.info, l); v != nil {
								e.amtExp[v] = lin{"common.exp": 1}
								delete(e.amtVal, v)
							}
						}
					}
				}
			}
		case *ast.IfStmt:
			if st.Init != nil {
				e.stmts([]ast.Stmt{st.Init})
			}
			e.compare(st.Cond)
			save := e.snapshot()
			e.paths++
			split := e.paths < 200
			tBody := e.stmts(st.Body.List)
			if !tBody && split {
				e.stmts(list[i+1:])
			}
			e.restore(save)
			tElse := false
			if st.Else != nil {
				if b, ok := st.Else.(*ast.BlockStmt); ok {
					tElse = e.stmts(b.List)
				} else {
					tElse = e.stmts([]ast.Stmt{st.Else})
				}
				if !split {
					e.restore(save)
				}
			}
			if tElse && (tBody || split) {
				return tBody
			}
			if tElse {
				return false
			}
		case *ast.ReturnStmt:
			for _, r := range st.Results {
				r = ast.Unparen(r)
				if cl, ok := r.(*ast.CompositeLit); ok {
					_, ef, ok := e.literal(cl)
					if ok {
						e.checkResult(cl.Pos(), ef)
					}
				} else if call, isCall := r.(*ast.CallExpr); isCall && !isAmountType(e.info.TypeOf(r)) {
					// the verdict is a helper's (return compareValues(a.value, a2.value)): its comparisons
					// are judged with the scales of what is handed in
					e.callHelper(call)
				} else if isAmountType(e.info.TypeOf(r)) {
					if ef, ok := e.expOfAmount(r); ok {
						// returning an existing amount unchanged: its exponent must be the documented one, or
						// the function has established equality by its guards (Rescale's final `return a`)
						e.checkResultLoose(r.Pos(), ef)
					} else if _, documented := e.expected(); documented && e.onReturn == nil {
						e.c.Undecided("C05-R2", fmt.Sprintf("%s#result@%s", e.fd.Name(), types.ExprString(r)), r.Pos(), "the exponent of the amount returned cannot be evaluated (a helper of unknown result precision)")
					}
				}
			}
			if e.onReturn != nil {
				e.onReturn(st)
			}
			return true
		case *ast.BlockStmt:
			if e.stmts(st.List) {
				return true
			}
		case *ast.SwitchStmt:
			if st.Init != nil {
				e.stmts([]ast.Stmt{st.Init})
			}
			save := e.snapshot()
			hasDefault, all := false, true
			for _, cc := range st.Body.List {
				cl := cc.(*ast.CaseClause)
				if cl.List == nil {
					hasDefault = true
				}
				if st.Tag == nil {
					for _, cnd := range cl.List {
						e.compare(cnd)
					}
				}
				e.restore(save)
				e.paths++
				t := e.stmts(cl.Body)
				if !t {
					all = false
					if e.paths < 200 {
						e.stmts(list[i+1:])
					}
				}
			}
			e.restore(save)
			if hasDefault && (all || e.paths < 200) {
				return all
			}
			// no clause applied: for `case a.exp < b.exp: … case b.exp < a.exp: …` without default
			// what remains is a.exp == b.exp
			if !hasDefault && st.Tag == nil {
				type pair struct{ x, y *types.Var }
				var lt []pair
				for _, cc := range st.Body.List {
					for _, cnd := range cc.(*ast.CaseClause).List {
						be, ok := ast.Unparen(cnd).(*ast.BinaryExpr)
						if !ok || (be.Op != token.LSS && be.Op != token.GTR) {
							continue
						}
						xv, xf := e.fieldOfAmountVar(be.X)
						yv, yf := e.fieldOfAmountVar(be.Y)
						if xv == nil || yv == nil || xf != "exp" || yf != "exp" {
							continue
						}
						if be.Op == token.GTR {
							xv, yv = yv, xv
						}
						lt = append(lt, pair{xv, yv})
					}
				}
				for _, p1 := range lt {
					for _, p2 := range lt {
						if p1.x == p2.y && p1.y == p2.x {
							e.amtExp[p1.y] = e.expOfVar(p1.x)
						}
					}
				}
			}
		case *ast.ForStmt:
			e.stmts(st.Body.List)
		case *ast.RangeStmt:
			e.stmts(st.Body.List)
		}
	}
	return false
}

// fieldOfAmountVar: l is v.value or v.exp of a plain Amount variable v.
func (e *scaleEnv) fieldOfAmountVar(l ast.Expr) (*types.Var, string) {
	sel, ok := ast.Unparen(l).(*ast.SelectorExpr)
	if !ok {
		return nil, ""
	}
	f := core.FieldOf(e.info, sel)
	if f == nil || (f.Name() != "value" && f.Name() != "exp") {
		return nil, ""
	}
	if vr := e.amountVar(sel.X); vr != nil {
		return vr, f.Name()
	}
	return nil, ""
}

// setField: v.value = r or v.exp = r on an amount held by value: from here the
// value's scale and the exponent are followed apart until the amount is used whole.
func (e *scaleEnv) setField(vr *types.Var, field string, f lin) {
	if _, apart := e.amtVal[vr]; !apart {
		e.amtVal[vr] = e.expOfVar(vr)
	}
	if field == "value" {
		e.amtVal[vr] = f
	} else {
		e.amtExp[vr] = f
	}
}

func (e *scaleEnv) opAssign(l ast.Expr, tok token.Token, r ast.Expr) {
	binop := map[token.Token]token.Token{token.ADD_ASSIGN: token.ADD, token.SUB_ASSIGN: token.SUB, token.MUL_ASSIGN: token.MUL, token.QUO_ASSIGN: token.QUO}[tok]
	if binop == token.ILLEGAL {
		return
	}
	be := &ast.BinaryExpr{X: l, OpPos: l.Pos(), Op: binop, Y: r}
	e.assign(l, be)
}

func (e *scaleEnv) snapshot() [4]map[*types.Var]lin {
	cp := func(m map[*types.Var]lin) map[*types.Var]lin {
		r := map[*types.Var]lin{}
		for k, v := range m {
			r[k] = v
		}
		return r
	}
	return [4]map[*types.Var]lin{cp(e.amtExp), cp(e.valForm), cp(e.scale), cp(e.amtVal)}
}

func (e *scaleEnv) restore(s [4]map[*types.Var]lin) {
	e.amtExp, e.valForm, e.scale, e.amtVal = s[0], s[1], s[2], s[3]
	s2 := e.snapshot()
	e.amtExp, e.valForm, e.scale, e.amtVal = s2[0], s2[1], s2[2], s2[3]
}

func (e *scaleEnv) compare(cond ast.Expr) {
	ast.Inspect(cond, func(n ast.Node) bool {
		be, ok := n.(*ast.BinaryExpr)
		if !ok {
			return true
		}
		switch be.Op {
		case token.LSS, token.GTR, token.LEQ, token.GEQ, token.EQL, token.NEQ:
			// only comparisons between quantities (a value field, or a local holding one)
			isQ := func(x ast.Expr) bool {
				if f := core.FieldOf(e.info, x); f != nil && f.Name() == "value" {
					return true
				}
				if v := core.VarOf(e.info, x); v != nil {
					_, has := e.scale[v]
					return has
				}
				return false
			}
			if isQ(be.X) {
				a, ok1 := e.quantity(be.X)
				b, ok2 := e.quantity(be.Y)
				if ok1 && ok2 {
					e.ob(be.Pos(), "compare:"+types.ExprString(be), a.eq(b) || len(b) == 0,
						fmt.Sprintf("values at different decimal scales are compared (%s vs %s)", a, b))
				}
			}
		}
		return true
	})
}

func (e *scaleEnv) assign(l, r ast.Expr) {
	if vr, field := e.fieldOfAmountVar(l); vr != nil {
		if field == "value" {
			if f, ok := e.quantity(r); ok {
				e.setField(vr, field, f)
			}
		} else if f, ok := e.expValue(r); ok {
			e.setField(vr, field, f)
		}
		return
	}
	v := core.VarOf(e.info, l)
	if v == nil {
		return
	}
	delete(e.amtVal, v)
	switch {
	case isAmountType(v.Type()):
		if cl, ok := ast.Unparen(r).(*ast.CompositeLit); ok {
			if _, ef, ok := e.literal(cl); ok {
				e.amtExp[v] = ef
			}
			return
		}
		if f, ok := e.expOfAmount(r); ok {
			e.amtExp[v] = f
		}
	default:
		b, _ := v.Type().Underlying().(*types.Basic)
		if b == nil {
			return
		}
		if b.Kind() == types.Uint32 || b.Kind() == types.Int {
			if f, ok := e.expValue(r); ok {
				e.valForm[v] = f
			}
		} else if b.Info()&(types.IsInteger|types.IsFloat) != 0 {
			if f, ok := e.quantity(r); ok {
				e.scale[v] = f
			}
		}
	}
}

func (e *scaleEnv) expected() (lin, bool) {
	sig := e.fd.Obj.Type().(*types.Signature)
	switch resultExp[e.fd.Obj.Name()] {
	case "recv":
		if sig.Recv() != nil {
			return lin{sig.Recv().Name() + ".exp": 1}, true
		}
	case "arg0":
		return lin{sig.Params().At(0).Name(): 1}, true
	case "arg1":
		return lin{sig.Params().At(1).Name(): 1}, true
	}
	return nil, false
}

func (e *scaleEnv) checkResult(pos token.Pos, ef lin) {
	if want, ok := e.expected(); ok {
		e.ob(pos, "result-exp", ef.eq(want), fmt.Sprintf("the result carries exponent %s, the documented result precision is %s", ef, want))
	}
}

func (e *scaleEnv) checkResultLoose(pos token.Pos, ef lin) {
	want, ok := e.expected()
	if !ok {
		return
	}
	if ef.eq(want) {
		e.ob(pos, "result-exp-delegated", true, "")
		return
	}
	// `return a` after `if a.exp > exp {…return}` and `if a.exp < exp {…return}`: a.exp == exp
	gt, lt := false, false
	// the same from the branch facts known at the return (any arrangement of ifs / cases)
	if e.ff == nil {
		e.ff = core.NewFuncFlow(e.fd)
	}
	var ret ast.Node
	ast.Inspect(e.fd.Decl.Body, func(n ast.Node) bool {
		if r, ok := n.(*ast.ReturnStmt); ok && r.Pos() <= pos && pos <= r.End() {
			ret = r
		}
		return true
	})
	if ret != nil {
		for leaf, val := range e.ff.Flow.CondsAt(ret) {
			be, ok := ast.Unparen(leaf).(*ast.BinaryExpr)
			if !ok {
				continue
			}
			a, ok1 := e.expValue(be.X)
			b, ok2 := e.expValue(be.Y)
			if !ok1 || !ok2 || !((a.eq(ef) && b.eq(want)) || (a.eq(want) && b.eq(ef))) {
				continue
			}
			efLeft := a.eq(ef)
			switch {
			case be.Op == token.EQL && val, be.Op == token.NEQ && !val:
				gt, lt = true, true
			case be.Op == token.GTR && !val, be.Op == token.LEQ && val:
				if efLeft {
					gt = true // ef > want excluded
				} else {
					lt = true
				}
			case be.Op == token.LSS && !val, be.Op == token.GEQ && val:
				if efLeft {
					lt = true
				} else {
					gt = true
				}
			}
		}
	}
	for _, s := range e.fd.Decl.Body.List {
		is, ok := s.(*ast.IfStmt)
		if !ok || len(is.Body.List) == 0 {
			continue
		}
		if _, isRet := is.Body.List[len(is.Body.List)-1].(*ast.ReturnStmt); !isRet {
			continue
		}
		be, ok := ast.Unparen(is.Cond).(*ast.BinaryExpr)
		if !ok {
			continue
		}
		a, ok1 := e.expValue(be.X)
		b, ok2 := e.expValue(be.Y)
		if ok1 && ok2 && ((a.eq(ef) && b.eq(want)) || (a.eq(want) && b.eq(ef))) {
			switch be.Op {
			case token.GTR:
				if a.eq(ef) {
					gt = true
				} else {
					lt = true
				}
			case token.LSS:
				if a.eq(ef) {
					lt = true
				} else {
					gt = true
				}
			}
		}
	}
	e.ob(pos, "result-exp-unchanged", gt && lt, fmt.Sprintf("the amount is returned unchanged with exponent %s although the documented result precision is %s and the two have not been found equal", ef, want))
}

// commonExpPair recognises rescaleAmountPair: every return of the function hands
// back two amounts at one and the same exponent (evaluated path by path).
func commonExpPair(c *core.Ctx, fn *types.Func) bool {
	fd := c.P.DeclOf(fn)
	if fd == nil {
		return false
	}
	sig := fn.Type().(*types.Signature)
	if sig.Results().Len() != 2 || !isAmountType(sig.Results().At(0).Type()) || !isAmountType(sig.Results().At(1).Type()) {
		return false
	}
	e := &scaleEnv{c: c, fd: fd, info: fd.Pkg.TypesInfo, amtExp: map[*types.Var]lin{}, valForm: map[*types.Var]lin{}, scale: map[*types.Var]lin{}, amtVal: map[*types.Var]lin{}}
	n, ok := 0, true
	e.onReturn = func(r *ast.ReturnStmt) {
		n++
		if len(r.Results) != 2 {
			ok = false
			return
		}
		a, ok1 := e.expOfAmount(r.Results[0])
		b, ok2 := e.expOfAmount(r.Results[1])
		if !ok1 || !ok2 || !a.eq(b) {
			ok = false
		}
	}
	e.stmts(fd.Decl.Body.List)
	if e.buf != nil {
		for _, o := range e.buf.m {
			if !o.ok {
				ok = false
			}
		}
	}
	return ok && n > 0
}

// C05 — decimal amount arithmetic.
func C05(c *core.Ctx) {
	// the operations of package num are the units of this analysis: each is judged
	// on its own body, they are not dissolved into one another
	p := c.P
	c.Explain("Decided for package num: (R1) the only way a floating-point intermediate becomes an integer value is int64(math.Round(x)) — math.Round is round-half-away-from-zero and sign-symmetric; no Floor/Ceil/Trunc/RoundToEven and no other float→int conversion exists; (R2) exponent-dimension consistency of every amount operation: each quantity expression is given a symbolic decimal scale (a linear form over the exponents in scope; value fields carry their amount's exponent, intPow(10,e) carries e, products add, quotients subtract); sums, differences and comparisons need equal scales, every Amount literal must be labelled with the scale of its value, and each operation's result carries its documented precision (receiver's, or the requested one for Rescale); (R3) Split's remainder is the original minus (parts−1) times the quotient; (R4) the threshold rules' comparison table, folded over cmp ∈ {−1,0,1}, equals the relation named by the error each constructor attaches (≥, ≤, >, <, ≠), and Compare returns −1/0/1 for </==/>. Not decided: exactness of float64 products/quotients within 2^52 (a numerical argument), overflow.")
	c.Rule("C05-R1", "float→integer only through int64(math.Round(x))", 4)
	c.Rule("C05-R2", "exponent-dimension consistency of amount operations", 14)
	c.Rule("C05-R3", "Split remainder identity", 1)
	c.Rule("C05-R4", "threshold comparison truth table; Compare sign table", 8)
	pk := p.Pkg("num")
	if pk == nil {
		c.Ob("C05-R1", "UNRESOLVED:num", token.NoPos, false, "package num not loaded")
		return
	}
	// R1
	for _, fd := range p.Funcs(pk) {
		info := fd.Pkg.TypesInfo
		idx := 0
		ast.Inspect(fd.Decl.Body, func(n ast.Node) bool {
			call, ok := n.(*ast.CallExpr)
			if !ok {
				return true
			}
			if fn := core.Callee(info, call); fn != nil && fn.Pkg() != nil && fn.Pkg().Path() == "math" {
				switch fn.Name() {
				case "Floor", "Ceil", "Trunc", "RoundToEven":
					idx++
					c.Ob("C05-R1", fmt.Sprintf("%s#math.%s%d", fd.Name(), fn.Name(), idx), call.Pos(), false,
						"math."+fn.Name()+" is not round-half-away-from-zero (and Floor(x+0.5)-style rounding is not sign-symmetric)")
				}
			}
			tv, ok := info.Types[call.Fun]
			if !ok || !tv.IsType() || len(call.Args) != 1 {
				return true
			}
			tb, _ := tv.Type.Underlying().(*types.Basic)
			ab, _ := info.TypeOf(call.Args[0]).Underlying().(*types.Basic)
			if tb == nil || ab == nil || tb.Info()&types.IsInteger == 0 || ab.Info()&types.IsFloat == 0 {
				return true
			}
			idx++
			isRound := false
			if rc, ok := ast.Unparen(call.Args[0]).(*ast.CallExpr); ok {
				if fn := core.Callee(info, rc); fn != nil && fn.Pkg() != nil && fn.Pkg().Path() == "math" && fn.Name() == "Round" {
					isRound = true
				}
			}
			c.Ob("C05-R1", fmt.Sprintf("%s#float-to-int%d", fd.Name(), idx), call.Pos(), isRound,
				"a floating-point value is converted to an integer without math.Round: the conversion truncates toward zero instead of rounding half away from zero")
			return true
		})
	}
	// the operations that reduce precision or multiply/divide must contain such a conversion
	for _, name := range []string{"Multiply", "Divide", "Rescale"} {
		fd := p.Func("num", "Amount", name)
		if fd == nil {
			c.Ob("C05-R1", "UNRESOLVED:num.Amount."+name, token.NoPos, false, "method not found")
			continue
		}
		has := false
		ast.Inspect(fd.Decl.Body, func(n ast.Node) bool {
			if call, ok := n.(*ast.CallExpr); ok {
				if fn := core.Callee(fd.Pkg.TypesInfo, call); fn != nil && fn.Pkg() != nil && fn.Pkg().Path() == "math" && fn.Name() == "Round" {
					has = true
				}
			}
			return true
		})
		c.Ob("C05-R1", fd.Name()+"#rounds-with-math.Round", fd.Decl.Pos(), has,
			"this operation no longer rounds its result with math.Round: whatever replaced it cannot be shown to be round-half-away-from-zero for both signs by this rule")
	}
	// R5: single inexact step before rounding
	c.Rule("C05-R5", "at most one inexact floating-point step feeds math.Round: nothing is computed from the result of a floating-point division", 3)
	for _, fd := range p.Funcs(pk) {
		info := fd.Pkg.TypesInfo
		ld := core.NewLocalDefs(info, fd.Decl.Body)
		idx := 0
		for _, rc := range core.CallsTo(info, fd.Decl.Body, func(f *types.Func) bool { return core.IsFunc(f, "math", "", "Round") }) {
			idx++
			// does any float operation take the result of a float division as an operand?
			var containsQuo func(e ast.Expr, depth int) bool
			containsQuo = func(e ast.Expr, depth int) bool {
				e = ast.Unparen(ld.Resolve(e, 3))
				switch x := e.(type) {
				case *ast.BinaryExpr:
					if isFloat(info.TypeOf(x)) && x.Op == token.QUO {
						return true
					}
					return containsQuo(x.X, depth+1) || containsQuo(x.Y, depth+1)
				case *ast.CallExpr:
					if tv, ok := info.Types[x.Fun]; ok && tv.IsType() && len(x.Args) == 1 {
						return containsQuo(x.Args[0], depth+1)
					}
					// a module function returning a float that divides (Amount.Float64)
					if fn := core.Callee(info, x); fn != nil && core.InModule(fn.Pkg()) && isFloat(info.TypeOf(x)) {
						if cfd := p.DeclOf(fn); cfd != nil {
							div := false
							ast.Inspect(cfd.Decl.Body, func(n ast.Node) bool {
								if be, ok := n.(*ast.BinaryExpr); ok && be.Op == token.QUO && isFloat(cfd.Pkg.TypesInfo.TypeOf(be)) {
									div = true
								}
								return true
							})
							return div
						}
					}
				case *ast.UnaryExpr:
					return containsQuo(x.X, depth+1)
				}
				return false
			}
			bad := ""
			var walk func(e ast.Expr)
			walk = func(e ast.Expr) {
				e = ast.Unparen(ld.Resolve(e, 3))
				switch x := e.(type) {
				case *ast.BinaryExpr:
					if isFloat(info.TypeOf(x)) {
						if containsQuo(x.X, 0) || containsQuo(x.Y, 0) {
							bad = types.ExprString(x)
						}
					}
					walk(x.X)
					walk(x.Y)
				case *ast.CallExpr:
					if tv, ok := info.Types[x.Fun]; ok && tv.IsType() && len(x.Args) == 1 {
						walk(x.Args[0])
					}
				case *ast.UnaryExpr:
					walk(x.X)
				}
			}
			walk(rc.Args[0])
			c.Ob("C05-R5", fmt.Sprintf("%s#round%d", fd.Name(), idx), rc.Pos(), bad == "",
				"the value rounded is computed from the result of a floating-point division ("+bad+"): two inexact steps, so an exact half can land on the wrong side; scale in integer arithmetic first, divide once, then round")
		}
	}
	// R2
	for _, fd := range p.Funcs(pk) {
		if _, ok := resultExp[fd.Obj.Name()]; !ok && fd.Obj.Name() != "Compare" {
			continue
		}
		if r := core.RecvNamed(fd.Obj); r != nil && r.Obj().Name() != "Amount" {
			continue
		}
		if fd.Obj.Name() == "MakeAmount" {
			continue
		}
		e := &scaleEnv{c: c, fd: fd, info: fd.Pkg.TypesInfo, amtExp: map[*types.Var]lin{}, valForm: map[*types.Var]lin{}, scale: map[*types.Var]lin{}, amtVal: map[*types.Var]lin{}}
		e.stmts(fd.Decl.Body.List)
		e.flush()
		if e.nOb == 0 {
			c.Undecided("C05-R2", fd.Name()+"#no-obligations", fd.Decl.Pos(), "no scale obligation could be derived for this operation")
		}
	}
	// percentage ±2 shift: PercentageFromAmount raises by two and divides by 100; Amount() multiplies by 100 and lowers by two
	c05Percentage(c)
	c05Split(c)
	c05Threshold(c)
	c05Extremum(c)
	c05RoundsOnce(c)
}

// c05RoundsOnce — C05-R6: an operation of package num rounds once. Divide (and
// Multiply by anything but an integer constant such as factor100) rounds its
// result to the receiver's precision; a precision-lowering rescale of that
// result in the same function (Rescale, RescaleDown, Downscale, RescaleRange)
// rounds an already rounded number — 0.9049 → 0.905 → 0.91 where the exact
// quotient rounds to 0.90. Raising the precision afterwards (RescaleUp,
// Upscale) rounds nothing.
func c05RoundsOnce(c *core.Ctx) {
	p := c.P
	c.Rule("C05-R6", "an operation of package num does not round an already rounded result again", 2)
	pk := p.Pkg("num")
	if pk == nil {
		return
	}
	info := pk.TypesInfo
	exactFactor := func(e ast.Expr) bool {
		v := pkgVar(info, e)
		if v == nil {
			return false
		}
		// var factor100 = MakeAmount(100, 0) / Amount{100, 0}: an integer
		for _, file := range pk.Syntax {
			for _, d := range file.Decls {
				gd, ok := d.(*ast.GenDecl)
				if !ok {
					continue
				}
				for _, sp := range gd.Specs {
					vs, ok := sp.(*ast.ValueSpec)
					if !ok {
						continue
					}
					for i, nm := range vs.Names {
						if info.Defs[nm] != types.Object(v) || i >= len(vs.Values) {
							continue
						}
						val := ast.Unparen(vs.Values[i])
						var expArg ast.Expr
						switch x := val.(type) {
						case *ast.CallExpr:
							if fn := core.Callee(info, x); fn != nil && fn.Name() == "MakeAmount" && len(x.Args) == 2 {
								expArg = x.Args[1]
							}
						case *ast.CompositeLit:
							if len(x.Elts) == 2 {
								expArg = x.Elts[1]
								if kv, ok := expArg.(*ast.KeyValueExpr); ok {
									expArg = kv.Value
								}
							}
						}
						if expArg != nil {
							if tv, ok := info.Types[expArg]; ok && tv.Value != nil && tv.Value.String() == "0" {
								return true
							}
						}
					}
				}
			}
		}
		return false
	}
	n := 0
	for _, fd := range p.Funcs(pk) {
		if p.IsTestFile(fd.Decl.Pos()) {
			continue
		}
		ld := core.NewLocalDefs(info, fd.Decl.Body)
		// does the expression carry the result of a rounding operation?
		var rounded func(e ast.Expr, depth int) string
		rounded = func(e ast.Expr, depth int) string {
			if depth > 4 {
				return ""
			}
			for _, src := range valueSources(info, ld, e, 0) {
				call, ok := ast.Unparen(src).(*ast.CallExpr)
				if !ok {
					continue
				}
				fn := core.Callee(info, call)
				switch {
				case isAmountMethod(fn, "Divide"):
					return types.ExprString(call)
				case isAmountMethod(fn, "Multiply"):
					if len(call.Args) == 1 && !exactFactor(call.Args[0]) {
						return types.ExprString(call)
					}
				case isAmountMethod(fn, "RescaleUp"), isAmountMethod(fn, "Upscale"), isAmountMethod(fn, "MatchPrecision"), isAmountMethod(fn, "Invert"), isAmountMethod(fn, "Negate"):
					// exact operations hand on what their receiver carries
					if r := rounded(core.RecvExpr(call), depth+1); r != "" {
						return r
					}
				}
			}
			return ""
		}
		k := 0
		ast.Inspect(fd.Decl.Body, func(m ast.Node) bool {
			call, ok := m.(*ast.CallExpr)
			if !ok {
				return true
			}
			fn := core.Callee(info, call)
			lowers := isAmountMethod(fn, "Rescale") || isAmountMethod(fn, "RescaleDown") || isAmountMethod(fn, "Downscale") || isAmountMethod(fn, "RescaleRange")
			if !lowers {
				return true
			}
			re := core.RecvExpr(call)
			if re == nil {
				return true
			}
			n++
			k++
			r := rounded(re, 0)
			c.Ob("C05-R6", fmt.Sprintf("%s#%s%d", fd.Name(), fn.Name(), k), call.Pos(), r == "",
				fmt.Sprintf("%s applies %s to the result of %s, which is already rounded to its receiver's precision: the value is rounded twice, and a quotient such as 0.9049… becomes 0.905 and then 0.91 where one rounding gives 0.90", fd.Name(), fn.Name(), r))
			return true
		})
	}
	c.Extra("C05-R6_precision_lowering_calls_in_num", n)
}

// c05Extremum: RescaleUp hands back the amount at the larger of its exponent
// and the argument, RescaleDown at the smaller, MatchPrecision is RescaleUp to
// the other amount's exponent — the facts the scale forms rely on. Each return
// is judged with the comparisons known true or false where it stands.
func c05Extremum(c *core.Ctx) {
	p := c.P
	for _, nm := range []string{"RescaleUp", "RescaleDown", "MatchPrecision"} {
		fd := p.Func("num", "Amount", nm)
		if fd == nil {
			c.Ob("C05-R2", "UNRESOLVED:num.Amount."+nm, token.NoPos, false, "method not found")
			continue
		}
		recv := recvVar(fd)
		sig := fd.Obj.Type().(*types.Signature)
		if sig.Params().Len() != 1 || recv == nil {
			c.Undecided("C05-R2", fd.Name()+"#extremum", fd.Decl.Pos(), "unexpected signature")
			continue
		}
		param := sig.Params().At(0)
		recvF := lin{recv.Name() + ".exp": 1}
		otherF := lin{param.Name(): 1}
		if isAmountType(param.Type()) {
			otherF = lin{param.Name() + ".exp": 1}
		}
		op := "max"
		if nm == "RescaleDown" {
			op = "min"
		}
		wantF := extremum(op, recvF, otherF)
		e := &scaleEnv{c: c, fd: fd, info: fd.Pkg.TypesInfo, amtExp: map[*types.Var]lin{}, valForm: map[*types.Var]lin{}, scale: map[*types.Var]lin{}, amtVal: map[*types.Var]lin{}}
		e.buf = &obBuf{m: map[string]*bufOb{}}
		ff := core.NewFuncFlow(fd)
		// relation of the other exponent to the receiver's known at a node: bit 1 `<`, 2 `==`, 4 `>` still possible
		relAt := func(at ast.Node) int {
			poss := 7
			for leaf, val := range ff.Flow.CondsAt(at) {
				be, ok := ast.Unparen(leaf).(*ast.BinaryExpr)
				if !ok {
					continue
				}
				a, ok1 := e.expValue(be.X)
				b, ok2 := e.expValue(be.Y)
				if !ok1 || !ok2 {
					continue
				}
				pl := a.eq(otherF) && b.eq(recvF)
				pr := a.eq(recvF) && b.eq(otherF)
				if !pl && !pr {
					continue
				}
				var set int // relations (other ? recv.exp) for which the comparison is true
				switch be.Op {
				case token.LSS:
					set = 1
				case token.LEQ:
					set = 3
				case token.GTR:
					set = 4
				case token.GEQ:
					set = 6
				case token.EQL:
					set = 2
				case token.NEQ:
					set = 5
				default:
					continue
				}
				if pr { // recv.exp OP other: mirror
					m := 0
					if set&1 != 0 {
						m |= 4
					}
					if set&2 != 0 {
						m |= 2
					}
					if set&4 != 0 {
						m |= 1
					}
					set = m
				}
				if !val {
					set = 7 &^ set
				}
				poss &= set
			}
			return poss
		}
		type verdict struct {
			pos     token.Pos
			ok      bool
			decided bool
			msg     string
		}
		var order []token.Pos
		verdicts := map[token.Pos]*verdict{}
		e.onReturn = func(r *ast.ReturnStmt) {
			if len(r.Results) != 1 {
				return
			}
			v := verdicts[r.Pos()]
			if v == nil {
				v = &verdict{pos: r.Pos(), ok: true, decided: true}
				verdicts[r.Pos()] = v
				order = append(order, r.Pos())
			}
			var f lin
			ok := false
			if cl, isLit := ast.Unparen(r.Results[0]).(*ast.CompositeLit); isLit {
				_, f, ok = e.literal(cl)
			} else {
				f, ok = e.expOfAmount(r.Results[0])
			}
			if !ok {
				v.decided = false
				v.msg = "the exponent of the result cannot be evaluated"
				return
			}
			if f.eq(wantF) {
				return
			}
			poss := relAt(r)
			var allowed int
			switch {
			case f.eq(otherF) && op == "max", f.eq(recvF) && op == "min":
				allowed = 6 // other >= recv.exp
			case f.eq(recvF) && op == "max", f.eq(otherF) && op == "min":
				allowed = 3 // other <= recv.exp
			default:
				v.decided = false
				v.msg = fmt.Sprintf("the result carries exponent %s, which is neither the receiver's, the argument's nor %s", f, wantF)
				return
			}
			if poss&^allowed != 0 {
				v.ok = false
				v.msg = fmt.Sprintf("%s returns an amount at exponent %s where the argument's exponent may lie on the other side of the receiver's: the result is not %s, which MatchPrecision and every precision-raising accumulation rely on", fd.Name(), f, wantF)
			}
		}
		e.stmts(fd.Decl.Body.List)
		for i, pos := range order {
			v := verdicts[pos]
			key := fmt.Sprintf("%s#extremum%d", fd.Name(), i+1)
			if !v.decided {
				c.Undecided("C05-R2", key, v.pos, v.msg)
				continue
			}
			c.Ob("C05-R2", key, v.pos, v.ok, v.msg)
		}
		if len(order) == 0 {
			c.Undecided("C05-R2", fd.Name()+"#extremum", fd.Decl.Pos(), "no return found")
		}
	}
}

func c05Percentage(c *core.Ctx) {
	p := c.P
	f100 := p.Pkg("num").Types.Scope().Lookup("factor100")
	usesF100 := func(fd *core.FuncDecl, method string) *ast.CallExpr {
		var found *ast.CallExpr
		ast.Inspect(fd.Decl.Body, func(n ast.Node) bool {
			if call, ok := n.(*ast.CallExpr); ok && len(call.Args) == 1 {
				if fn := core.Callee(fd.Pkg.TypesInfo, call); fn != nil && fn.Name() == method {
					if id, ok := ast.Unparen(call.Args[0]).(*ast.Ident); ok && fd.Pkg.TypesInfo.Uses[id] == f100 {
						found = call
					}
				}
			}
			return true
		})
		return found
	}
	if fd := p.Func("num", "", "PercentageFromAmount"); fd != nil {
		div := usesF100(fd, "Divide")
		up := false
		if div != nil {
			ld := core.NewLocalDefs(fd.Pkg.TypesInfo, fd.Decl.Body)
			if rc, ok := ast.Unparen(ld.Resolve(ast.Unparen(core.RecvExpr(div)), 3)).(*ast.CallExpr); ok {
				if fn := core.Callee(fd.Pkg.TypesInfo, rc); fn != nil && fn.Name() == "Rescale" {
					if be, ok := ast.Unparen(rc.Args[0]).(*ast.BinaryExpr); ok && be.Op == token.ADD {
						if tv, ok := fd.Pkg.TypesInfo.Types[be.Y]; ok && tv.Value != nil && tv.Value.String() == "2" {
							up = true
						}
					}
				}
				// Upscale(2) is Rescale(exp + 2) by definition (checked: Upscale's body is that expression)
				if fn := core.Callee(fd.Pkg.TypesInfo, rc); fn != nil && fn.Name() == "Upscale" && len(rc.Args) == 1 {
					if tv, ok := fd.Pkg.TypesInfo.Types[rc.Args[0]]; ok && tv.Value != nil && tv.Value.String() == "2" && c05UpscaleIsRescalePlus(p) {
						up = true
					}
				}
			}
		}
		c.Ob("C05-R2", fd.Name()+"#shift", fd.Decl.Pos(), div != nil && up, "a percentage is not built as amount.Rescale(exp+2).Divide(100): the ±2 decimal shift between '21%' and 0.21 is broken")
	} else {
		c.Ob("C05-R2", "UNRESOLVED:PercentageFromAmount", token.NoPos, false, "function not found")
	}
	if fd := p.Func("num", "Percentage", "Amount"); fd != nil {
		mul := usesF100(fd, "Multiply")
		c.Ob("C05-R2", fd.Name()+"#shift", fd.Decl.Pos(), mul != nil, "Percentage.Amount does not multiply by 100 (inverse of PercentageFromAmount)")
	} else {
		c.Ob("C05-R2", "UNRESOLVED:Percentage.Amount", token.NoPos, false, "method not found")
	}
	// factor100 / factor1 constants
	folder := &core.Folder{P: p}
	for name, want := range map[string]core.FNum{"factor100": {Value: 100, Exp: 0}, "factor1": {Value: 1, Exp: 0}} {
		o := p.Pkg("num").Types.Scope().Lookup(name)
		ok := false
		if o != nil {
			for _, file := range p.Pkg("num").Syntax {
				ast.Inspect(file, func(n ast.Node) bool {
					if vs, isVS := n.(*ast.ValueSpec); isVS {
						for i, nm := range vs.Names {
							if nm.Name == name && i < len(vs.Values) {
								if v, isN := folder.Fold(p.Pkg("num"), vs.Values[i]).(core.FNum); isN && v.Value == want.Value && v.Exp == want.Exp {
									ok = true
								}
							}
						}
					}
					return true
				})
			}
		}
		c.Ob("C05-R2", "num."+name, token.NoPos, ok, fmt.Sprintf("constant %s is not %d with exponent 0", name, want.Value))
	}
	// Of = a.Multiply(p), Factor = p + 1, From = a − a/Factor, Remove = a/Factor
	type shape struct{ recv, name, want string }
	for _, s := range []shape{{"Percentage", "Of", "Multiply"}, {"Percentage", "Factor", "Add"}, {"Amount", "Remove", "Divide"}, {"Percentage", "From", "Subtract"}} {
		fd := p.Func("num", s.recv, s.name)
		if fd == nil {
			c.Ob("C05-R2", "UNRESOLVED:"+s.recv+"."+s.name, token.NoPos, false, "method not found")
			continue
		}
		has := len(core.CallsTo(fd.Pkg.TypesInfo, fd.Decl.Body, func(f *types.Func) bool { return isAmountMethod(f, s.want) })) > 0
		c.Ob("C05-R2", fd.Name()+"#uses:"+s.want, fd.Decl.Pos(), has, fmt.Sprintf("%s.%s is not expressed with Amount.%s", s.recv, s.name, s.want))
	}
}

func c05Split(c *core.Ctx) {
	p := c.P
	fd := p.Func("num", "Amount", "Split")
	if fd == nil {
		c.Ob("C05-R3", "UNRESOLVED:num.Amount.Split", token.NoPos, false, "method not found")
		return
	}
	info := fd.Pkg.TypesInfo
	recv := recvVar(fd)
	ld := core.NewLocalDefs(info, fd.Decl.Body)
	var ret *ast.ReturnStmt
	ast.Inspect(fd.Decl.Body, func(n ast.Node) bool {
		if r, ok := n.(*ast.ReturnStmt); ok {
			ret = r
		}
		return true
	})
	ok := false
	why := "shape not recognised"
	if ret != nil && len(ret.Results) == 2 {
		// quotient expression: a.Divide(·) on the receiver, possibly through a local
		resolveFull := func(e ast.Expr) ast.Expr {
			for i := 0; i < 4; i++ {
				v := core.VarOf(info, e)
				if v == nil || v.IsField() {
					break
				}
				d, has := ld.Before(v, ret.End())
				if !has || d.RHS == nil {
					break
				}
				// a3 = a.Subtract(a3): the inner a3 is the earlier definition
				e = d.RHS
			}
			return ast.Unparen(e)
		}
		qe := resolveFull(ret.Results[0])
		qv := core.VarOf(info, ret.Results[0])
		qOK := false
		if cl, isC := qe.(*ast.CallExpr); isC && isAmountMethod(core.Callee(info, cl), "Divide") && core.VarOf(info, core.RecvExpr(cl)) == recv {
			qOK = true
		}
		// remainder: a.Subtract(q.Multiply(x-1)) where q is the quotient (same variable, or the same expression)
		rOK := false
		var subs []*ast.CallExpr
		if cl, isC := ast.Unparen(ret.Results[1]).(*ast.CallExpr); isC {
			subs = append(subs, cl)
		}
		if rv := core.VarOf(info, ret.Results[1]); rv != nil {
			for _, d := range ld.All(rv) {
				if cl, isC := ast.Unparen(d.RHS).(*ast.CallExpr); d.RHS != nil && isC {
					subs = append(subs, cl)
				}
			}
		}
		for _, cl := range subs {
			if !isAmountMethod(core.Callee(info, cl), "Subtract") || core.VarOf(info, core.RecvExpr(cl)) != recv {
				continue
			}
			arg := ast.Unparen(cl.Args[0])
			// through locals, choosing for a self-referring `r = a.Subtract(r)` the earlier definition
			for i := 0; i < 3; i++ {
				v := core.VarOf(info, arg)
				if v == nil {
					break
				}
				var prev ast.Expr
				for _, d2 := range ld.All(v) {
					if d2.Pos < cl.Pos() && d2.RHS != nil && ast.Unparen(d2.RHS) != ast.Expr(cl) {
						prev = d2.RHS
					}
				}
				if prev == nil {
					break
				}
				arg = ast.Unparen(prev)
			}
			mc, isM := arg.(*ast.CallExpr)
			if !isM || !isAmountMethod(core.Callee(info, mc), "Multiply") {
				continue
			}
			mr := core.RecvExpr(mc)
			sameQ := (qv != nil && core.VarOf(info, mr) == qv) || types.ExprString(resolveFull(mr)) == types.ExprString(qe)
			if !sameQ {
				continue
			}
			found := false
			ast.Inspect(ld.Resolve(mc.Args[0], 2), func(n ast.Node) bool {
				if be, isB := n.(*ast.BinaryExpr); isB && be.Op == token.SUB {
					if tv, has := info.Types[be.Y]; has && tv.Value != nil && tv.Value.String() == "1" {
						found = true
					}
				}
				return true
			})
			if found {
				rOK = true
			}
		}
		ok = qOK && rOK
		why = fmt.Sprintf("quotient = a.Divide(x): %v; remainder = a − quotient·(x−1): %v", qOK, rOK)
	}
	c.Ob("C05-R3", fd.Name()+"#remainder", fd.Decl.Pos(), ok, "the parts of a split no longer add back to the original: "+why)
}

// sideFinder answers: from which one of the base variables (the operands of a
// binary operation) is an integer or amount expression computed? Exponents
// (uint32) carry no operand. Locals are followed through their definitions,
// tuple results through the returns of the module function called.
type sideFinder struct {
	p    *core.Program
	info *types.Info
	ld   *core.LocalDefs
	base map[*types.Var]bool
}

func (sf *sideFinder) side(e ast.Expr, depth int) *types.Var {
	if depth > 5 {
		return nil
	}
	var found *types.Var
	mixed := false
	note := func(s *types.Var) {
		if s != nil {
			if found != nil && found != s {
				mixed = true
			}
			found = s
		}
	}
	ast.Inspect(e, func(n ast.Node) bool {
		if x, ok := n.(ast.Expr); ok {
			if b, isB := typeBasic(sf.info.TypeOf(x)); isB && b.Kind() == types.Uint32 {
				return false // an exponent
			}
		}
		id, ok := n.(*ast.Ident)
		if !ok {
			return true
		}
		v, ok := sf.info.Uses[id].(*types.Var)
		if !ok || v.IsField() {
			return true
		}
		if sf.base[v] {
			note(v)
			return true
		}
		if !isAmountType(v.Type()) {
			if b, isB := typeBasic(v.Type()); !isB || b.Info()&(types.IsInteger|types.IsFloat) == 0 {
				return true
			}
		}
		for _, d := range sf.ld.All(v) {
			if d.RHS == nil {
				continue
			}
			if d.N > 1 {
				note(sf.tupleSide(d, depth))
				continue
			}
			note(sf.side(d.RHS, depth+1))
		}
		return true
	})
	if mixed {
		return nil
	}
	return found
}

// tupleSide: `x, y := f(a, b)`: the operand the d.Idx-th result of f is computed
// from in every return of f, mapped back through f's parameters.
func (sf *sideFinder) tupleSide(d core.DefSite, depth int) *types.Var {
	call, ok := ast.Unparen(d.RHS).(*ast.CallExpr)
	if !ok {
		return nil
	}
	fn := core.Callee(sf.info, call)
	if fn == nil || !core.InModule(fn.Pkg()) {
		return nil
	}
	cfd := sf.p.DeclOf(fn)
	if cfd == nil {
		return nil
	}
	sig := fn.Type().(*types.Signature)
	sub := &sideFinder{p: sf.p, info: cfd.Pkg.TypesInfo, ld: core.NewLocalDefs(cfd.Pkg.TypesInfo, cfd.Decl.Body), base: map[*types.Var]bool{}}
	for i := 0; i < sig.Params().Len(); i++ {
		sub.base[sig.Params().At(i)] = true
	}
	var pv *types.Var
	bad := false
	ast.Inspect(cfd.Decl.Body, func(n ast.Node) bool {
		if _, isLit := n.(*ast.FuncLit); isLit {
			return false
		}
		r, isR := n.(*ast.ReturnStmt)
		if !isR {
			return true
		}
		if len(r.Results) != d.N {
			bad = true
			return true
		}
		s := sub.side(r.Results[d.Idx], depth+1)
		if s == nil || (pv != nil && pv != s) {
			bad = true
		}
		pv = s
		return true
	})
	if bad || pv == nil {
		return nil
	}
	for i := 0; i < sig.Params().Len() && i < len(call.Args); i++ {
		if sig.Params().At(i) == pv {
			return sf.side(call.Args[i], depth+1)
		}
	}
	return nil
}

func typeBasic(t types.Type) (*types.Basic, bool) {
	if t == nil {
		return nil, false
	}
	b, ok := t.Underlying().(*types.Basic)
	return b, ok
}

func c05Threshold(c *core.Ctx) {
	p := c.P
	// Compare sign table, by finite abstract evaluation: the function is run for the three
	// orderings of (receiver quantity, argument quantity) brought to a common precision
	if fd := p.Func("num", "Amount", "Compare"); fd != nil {
		info := fd.Pkg.TypesInfo
		recv := recvVar(fd)
		arg := fd.Obj.Type().(*types.Signature).Params().At(0)
		// which operand does an integer expression belong to?
		sf := &sideFinder{p: p, info: info, ld: core.NewLocalDefs(info, fd.Decl.Body), base: map[*types.Var]bool{recv: true, arg: true}}
		side := sf.side
		for _, o := range []struct {
			name string
			l, r int64
			want int64
			msg  string
		}{{"less", 0, 1, -1, "Compare does not return -1 when the receiver is smaller"}, {"greater", 1, 0, 1, "Compare does not return 1 when the receiver is greater"}, {"equal", 1, 1, 0, "Compare does not return 0 when both are equal"}} {
			ev := &core.AbsEval{Info: info}
			// conditions on the exponents are not evaluated: what their branches assign is forgotten
			ev.UnknownIf = func(*ast.IfStmt) bool { return true }
			ev.Atom = func(e ast.Expr) (any, bool) {
				t := info.TypeOf(e)
				if t == nil {
					return nil, false
				}
				if b, ok := t.Underlying().(*types.Basic); !ok || b.Kind() != types.Int64 {
					return nil, false
				}
				if _, isLit := ast.Unparen(e).(*ast.BasicLit); isLit {
					return nil, false
				}
				switch side(e, 0) {
				case recv:
					return o.l, true
				case arg:
					return o.r, true
				}
				return nil, false
			}
			ret, ok := ev.Run(fd.Decl.Body)
			got, isN := int64(0), false
			if ok && len(ret) == 1 {
				got, isN = ret[0].(int64)
			}
			if !ok || !isN {
				c.Undecided("C05-R4", fd.Name()+"#"+o.name, fd.Decl.Pos(), "Compare could not be evaluated for this ordering of the two quantities")
				continue
			}
			c.Ob("C05-R4", fd.Name()+"#"+o.name, fd.Decl.Pos(), got == o.want, o.msg)
		}
		// both quantities are brought to one precision before they are compared (R2 obligations of Compare)
	} else {
		c.Ob("C05-R4", "UNRESOLVED:num.Amount.Compare", token.NoPos, false, "method not found")
	}
	numEqualsByCompare(c, "C05-R4")
	// operator constants -> relation named by the attached error
	fd := p.Func("num", "ThresholdRule", "compare")
	if fd == nil {
		c.Ob("C05-R4", "UNRESOLVED:num.ThresholdRule.compare", token.NoPos, false, "method not found")
		return
	}
	info := fd.Pkg.TypesInfo
	relOfErr := func(name string) string {
		switch {
		case strings.Contains(name, "GreaterEqualThan"):
			return ">="
		case strings.Contains(name, "LessEqualThan"):
			return "<="
		case strings.Contains(name, "GreaterThan"):
			return ">"
		case strings.Contains(name, "LessThan"):
			return "<"
		case strings.Contains(name, "IsZero"):
			return "!="
		}
		return ""
	}
	rel := map[types.Object]string{}
	for _, f := range p.Funcs(fd.Pkg) {
		collect := func(opExpr, errExpr ast.Expr, inf *types.Info) {
			oid, ok1 := ast.Unparen(opExpr).(*ast.Ident)
			var ename string
			switch x := ast.Unparen(errExpr).(type) {
			case *ast.SelectorExpr:
				ename = x.Sel.Name
			case *ast.Ident:
				ename = x.Name
			}
			if ok1 && ename != "" {
				if r := relOfErr(ename); r != "" {
					if o := inf.Uses[oid]; o != nil {
						rel[o] = r
					}
				}
			}
		}
		ast.Inspect(f.Decl.Body, func(n ast.Node) bool {
			switch x := n.(type) {
			case *ast.CompositeLit:
				var op, er ast.Expr
				for _, el := range x.Elts {
					if kv, ok := el.(*ast.KeyValueExpr); ok {
						kid, isID := kv.Key.(*ast.Ident)
						if !isID {
							continue
						}
						switch kid.Name {
						case "operator":
							op = kv.Value
						case "err":
							er = kv.Value
						}
					}
				}
				if op != nil && er != nil {
					collect(op, er, f.Pkg.TypesInfo)
				}
			case *ast.BlockStmt:
				var op, er ast.Expr
				for _, s := range x.List {
					if as, ok := s.(*ast.AssignStmt); ok && len(as.Lhs) == 1 {
						if fl := core.FieldOf(f.Pkg.TypesInfo, as.Lhs[0]); fl != nil {
							switch fl.Name() {
							case "operator":
								op = as.Rhs[0]
							case "err":
								er = as.Rhs[0]
							}
						}
					}
				}
				if op != nil && er != nil {
					collect(op, er, f.Pkg.TypesInfo)
				}
			}
			return true
		})
	}
	// package-level NotZero literal
	for _, file := range fd.Pkg.Syntax {
		ast.Inspect(file, func(n ast.Node) bool {
			if cl, ok := n.(*ast.CompositeLit); ok {
				var op, er ast.Expr
				for _, el := range cl.Elts {
					if kv, ok := el.(*ast.KeyValueExpr); ok {
						if id, ok := kv.Key.(*ast.Ident); ok {
							switch id.Name {
							case "operator":
								op = kv.Value
							case "err":
								er = kv.Value
							}
						}
					}
				}
				if op != nil && er != nil {
					if oid, ok := ast.Unparen(op).(*ast.Ident); ok {
						if eid, ok := ast.Unparen(er).(*ast.Ident); ok {
							if r := relOfErr(eid.Name); r != "" {
								rel[info.Uses[oid]] = r
							}
						}
					}
				}
			}
			return true
		})
	}
	// the acceptance table, by finite abstract evaluation: for every operator constant that a
	// constructor pairs with an error naming a relation, and for cmp in {-1, 0, 1}, the function is
	// run with `<receiver>.operator` = that constant and the Compare result = cmp
	recv := recvVar(fd)
	want := func(r string, cmp int64) bool {
		switch r {
		case ">=":
			return cmp >= 0
		case "<=":
			return cmp <= 0
		case ">":
			return cmp > 0
		case "<":
			return cmp < 0
		default:
			return cmp != 0
		}
	}
	// the decision is taken from Amount.Compare of the value and the threshold (which brings
	// both to their common precision first) — in either orientation
	mirrored := map[*ast.CallExpr]bool{}
	nCmp := 0
	{
		var valueParam *types.Var
		if sig := fd.Obj.Type().(*types.Signature); sig.Params().Len() == 1 {
			valueParam = sig.Params().At(0)
		}
		isThreshold := func(e ast.Expr) bool {
			f := core.FieldOf(info, ast.Unparen(e))
			return f != nil && f.Name() == "threshold" && core.RootVar(info, e) == recv
		}
		ldc := core.NewLocalDefs(info, fd.Decl.Body)
		is := func(e ast.Expr, pred func(ast.Expr) bool) bool {
			for _, src := range valueSources(info, ldc, e, 0) {
				if !pred(src) {
					return false
				}
			}
			return true
		}
		isValue := func(e ast.Expr) bool { return valueParam != nil && core.VarOf(info, e) == valueParam }
		ast.Inspect(fd.Decl.Body, func(n ast.Node) bool {
			call, ok := n.(*ast.CallExpr)
			if !ok || !isAmountMethod(core.Callee(info, call), "Compare") || len(call.Args) != 1 {
				return true
			}
			re := core.RecvExpr(call)
			switch {
			case is(re, isValue) && is(call.Args[0], isThreshold):
				nCmp++
			case is(re, isThreshold) && is(call.Args[0], isValue):
				nCmp++
				mirrored[call] = true
			}
			return true
		})
		c.Ob("C05-R4", fd.Name()+"#by-Compare", fd.Decl.Pos(), nCmp > 0,
			"the threshold rule does not take its decision from Amount.Compare of the value and the threshold: Compare brings both to their common precision first; any other route (the sign of value.Subtract(threshold), raw values) compares at one operand's precision — Subtract rounds the threshold to the value's decimals, so Max(12.5%) accepts 13%")
		if nCmp == 0 {
			return
		}
	}
	var ops []types.Object
	for o := range rel {
		if o != nil {
			ops = append(ops, o)
		}
	}
	sort.Slice(ops, func(i, j int) bool { return ops[i].Name() < ops[j].Name() })
	for _, o := range ops {
		cst, isC := o.(*types.Const)
		if !isC {
			c.Undecided("C05-R4", fd.Name()+"#"+o.Name(), fd.Decl.Pos(), "operator is not a constant")
			continue
		}
		opVal, _ := constant.Int64Val(constant.ToInt(cst.Val()))
		okAll, decided := true, true
		for _, cmp := range []int64{-1, 0, 1} {
			ev := &core.AbsEval{Info: info}
			ev.Atom = func(e ast.Expr) (any, bool) {
				e = ast.Unparen(e)
				if se, ok := e.(*ast.SelectorExpr); ok && se.Sel.Name == "operator" && core.VarOf(info, se.X) == recv {
					return opVal, true
				}
				if call, ok := e.(*ast.CallExpr); ok {
					if fn := core.Callee(info, call); isAmountMethod(fn, "Compare") {
						if mirrored[call] {
							return -cmp, true
						}
						return cmp, true
					}
				}
				return nil, false
			}
			ret, ok := ev.Run(fd.Decl.Body)
			b, isB := false, false
			if ok && len(ret) == 1 {
				b, isB = ret[0].(bool)
			}
			if !ok || !isB {
				decided = false
				break
			}
			if b != want(rel[o], cmp) {
				okAll = false
			}
		}
		key := fd.Name() + "#" + o.Name()
		if !decided {
			c.Undecided("C05-R4", key, fd.Decl.Pos(), "the acceptance function could not be evaluated for this operator")
			continue
		}
		c.Ob("C05-R4", key, fd.Decl.Pos(), okAll, fmt.Sprintf("operator %s accepts a different relation than the one its error message states (%s threshold)", o.Name(), rel[o]))
	}
}

func isFloat(t types.Type) bool {
	if t == nil {
		return false
	}
	b, ok := t.Underlying().(*types.Basic)
	return ok && b.Info()&types.IsFloat != 0
}

// c05UpscaleIsRescalePlus: Amount.Upscale(n) returns receiver.Rescale(<receiver exponent> + n).
func c05UpscaleIsRescalePlus(p *core.Program) bool {
	fd := p.RawFunc("num", "Amount", "Upscale")
	if fd == nil || len(fd.Decl.Body.List) != 1 {
		return false
	}
	r, ok := fd.Decl.Body.List[0].(*ast.ReturnStmt)
	if !ok || len(r.Results) != 1 {
		return false
	}
	info := fd.Pkg.TypesInfo
	call, ok := ast.Unparen(r.Results[0]).(*ast.CallExpr)
	if !ok || !isAmountMethod(core.Callee(info, call), "Rescale") || core.VarOf(info, core.RecvExpr(call)) != recvVar(fd) || len(call.Args) != 1 {
		return false
	}
	be, ok := ast.Unparen(call.Args[0]).(*ast.BinaryExpr)
	if !ok || be.Op != token.ADD {
		return false
	}
	param := fd.Obj.Type().(*types.Signature).Params().At(0)
	isExp := func(e ast.Expr) bool {
		e = ast.Unparen(e)
		if se, ok := e.(*ast.SelectorExpr); ok && se.Sel.Name == "exp" && core.VarOf(info, se.X) == recvVar(fd) {
			return true
		}
		if c2, ok := e.(*ast.CallExpr); ok {
			if fn := core.Callee(info, c2); fn != nil && fn.Name() == "Exp" && core.VarOf(info, core.RecvExpr(c2)) == recvVar(fd) {
				return true
			}
		}
		return false
	}
	return (isExp(be.X) && core.VarOf(info, be.Y) == param) || (isExp(be.Y) && core.VarOf(info, be.X) == param)
}

// equalsByCompare: every decision the method takes (returned expressions
// and branch conditions) is `x.Compare(y) == 0` or `x.Equals(y)` over the
// receiver and the argument, and the body reads no raw value or exponent.
func equalsByCompare(p *core.Program, fd *core.FuncDecl) (bool, string) {
	info := fd.Pkg.TypesInfo
	ld := core.NewLocalDefs(info, fd.Decl.Body)
	resolve := func(e ast.Expr, _ int) ast.Expr { return ast.Unparen(ld.Resolve(ast.Unparen(e), 4)) }
	// raw members: only `x.exp == y.exp` tests, and value comparisons where that test holds
	isRaw := func(e ast.Expr, name string) bool {
		se, ok := ast.Unparen(e).(*ast.SelectorExpr)
		if !ok {
			return false
		}
		v, ok := info.Uses[se.Sel].(*types.Var)
		return ok && v.IsField() && v.Name() == name
	}
	ff := core.NewFuncFlow(fd)
	sameExpAt := func(n ast.Node) bool {
		cn := ff.Flow.EnclosingNode(n)
		if cn == nil {
			return false
		}
		for leaf, val := range ff.Flow.CondsAt(cn) {
			if be, ok := ast.Unparen(leaf).(*ast.BinaryExpr); ok && isRaw(be.X, "exp") && isRaw(be.Y, "exp") {
				if (be.Op == token.EQL && val) || (be.Op == token.NEQ && !val) {
					return true
				}
			}
		}
		return false
	}
	raw := ""
	okRaw := map[ast.Node]bool{}
	// operands prepared by the helper Compare itself prepares its operands with
	// (rescaleAmountPair and the like): `x, y := F(a, b)` with a, b the two whole operands
	prepared := map[*types.Var]*ast.AssignStmt{}
	if cfd := p.Func("num", "Amount", "Compare"); cfd != nil {
		helpers := map[*types.Func]bool{}
		ast.Inspect(cfd.Decl.Body, func(n ast.Node) bool {
			if as, ok := n.(*ast.AssignStmt); ok && len(as.Lhs) == 2 && len(as.Rhs) == 1 {
				if call, ok := ast.Unparen(as.Rhs[0]).(*ast.CallExpr); ok && len(call.Args) == 2 {
					if f := core.Callee(cfd.Pkg.TypesInfo, call); f != nil && core.InModule(f.Pkg()) {
						helpers[f.Origin()] = true
					}
				}
			}
			return true
		})
		sig := fd.Obj.Type().(*types.Signature)
		whole := func(e ast.Expr) int { // 1 receiver, 2 argument (whole, or its amount member)
			e = ast.Unparen(e)
			if se, ok := e.(*ast.SelectorExpr); ok && se.Sel.Name == "amount" {
				e = ast.Unparen(se.X)
			}
			v := core.VarOf(info, e)
			switch {
			case v != nil && v == sig.Recv():
				return 1
			case v != nil && sig.Params().Len() == 1 && v == sig.Params().At(0):
				return 2
			}
			return 0
		}
		ast.Inspect(fd.Decl.Body, func(n ast.Node) bool {
			as, ok := n.(*ast.AssignStmt)
			if !ok || len(as.Lhs) != 2 || len(as.Rhs) != 1 {
				return true
			}
			call, ok := ast.Unparen(as.Rhs[0]).(*ast.CallExpr)
			if !ok || len(call.Args) != 2 {
				return true
			}
			f := core.Callee(info, call)
			if f == nil || !helpers[f.Origin()] || whole(call.Args[0])+whole(call.Args[1]) != 3 {
				return true
			}
			for _, l := range as.Lhs {
				if v := core.VarOf(info, l); v != nil {
					prepared[v] = as
				} else if id, ok := l.(*ast.Ident); ok {
					if v, ok := info.Defs[id].(*types.Var); ok {
						prepared[v] = as
					}
				}
			}
			return true
		})
	}
	preparedOperand := func(e ast.Expr) *ast.AssignStmt {
		e = ast.Unparen(e)
		if se, ok := e.(*ast.SelectorExpr); ok && se.Sel.Name == "value" {
			e = ast.Unparen(se.X)
		}
		if v := core.VarOf(info, e); v != nil {
			return prepared[v]
		}
		return nil
	}
	ast.Inspect(fd.Decl.Body, func(n ast.Node) bool {
		if be, ok := n.(*ast.BinaryExpr); ok && (be.Op == token.EQL || be.Op == token.NEQ) {
			if a, b := preparedOperand(be.X), preparedOperand(be.Y); a != nil && a == b && exprKey(be.X) != exprKey(be.Y) {
				okRaw[ast.Unparen(be.X)], okRaw[ast.Unparen(be.Y)] = true, true
				okRaw[be] = true
			}
			if isRaw(be.X, "exp") && isRaw(be.Y, "exp") {
				okRaw[ast.Unparen(be.X)], okRaw[ast.Unparen(be.Y)] = true, true
			}
			if isRaw(be.X, "value") && isRaw(be.Y, "value") && sameExpAt(be) {
				okRaw[ast.Unparen(be.X)], okRaw[ast.Unparen(be.Y)] = true, true
				okRaw[be] = true
			}
		}
		return true
	})
	ast.Inspect(fd.Decl.Body, func(n ast.Node) bool {
		if se, ok := n.(*ast.SelectorExpr); ok && !okRaw[se] {
			if v, ok := info.Uses[se.Sel].(*types.Var); ok && v.IsField() && (v.Name() == "value" || v.Name() == "exp") {
				raw = "reads ." + v.Name() + " directly"
			}
		}
		return true
	})
	if raw != "" {
		return false, raw
	}
	var accepted func(e ast.Expr) bool
	accepted = func(e ast.Expr) bool {
		e = resolve(e, 0)
		if okRaw[e] {
			return true
		}
		if be, ok := e.(*ast.BinaryExpr); ok && isRaw(be.X, "exp") && isRaw(be.Y, "exp") {
			return true
		}
		switch x := e.(type) {
		case *ast.UnaryExpr:
			return x.Op == token.NOT && accepted(x.X)
		case *ast.BinaryExpr:
			if x.Op != token.EQL && x.Op != token.NEQ {
				return false
			}
			l, r := resolve(x.X, 0), resolve(x.Y, 0)
			if tv, has := info.Types[r]; !has || tv.Value == nil || tv.Value.String() != "0" {
				l, r = r, l
			}
			if tv, has := info.Types[r]; !has || tv.Value == nil || tv.Value.String() != "0" {
				return false
			}
			cl, isC := l.(*ast.CallExpr)
			if !isC {
				return false
			}
			f := core.Callee(info, cl)
			return f != nil && f.Name() == "Compare" && f.Pkg() != nil && strings.HasSuffix(f.Pkg().Path(), "/num")
		case *ast.CallExpr:
			f := core.Callee(info, x)
			return f != nil && f.Name() == "Equals" && f != fd.Obj && f.Pkg() != nil && strings.HasSuffix(f.Pkg().Path(), "/num")
		}
		return false
	}
	n, bad := 0, ""
	decide := func(e ast.Expr) {
		if tv, has := info.Types[e]; has && tv.Value != nil {
			return // literal true/false under a branch
		}
		n++
		if !accepted(e) {
			bad = types.ExprString(e)
		}
	}
	ast.Inspect(fd.Decl.Body, func(m ast.Node) bool {
		switch x := m.(type) {
		case *ast.FuncLit:
			return false
		case *ast.ReturnStmt:
			for _, r := range x.Results {
				decide(r)
			}
		case *ast.IfStmt:
			decide(x.Cond)
		case *ast.SwitchStmt:
			if x.Tag != nil {
				bad = "switch"
			}
		}
		return true
	})
	if bad != "" {
		return false, "decides on " + bad
	}
	if n == 0 {
		return false, "no comparison found"
	}
	return true, ""
}

// numEqualsByCompare: Amount.Equals and Percentage.Equals are Compare == 0 of
// the two whole quantities (used by C05-R4, C02-R10 and C20-R7: the group
// identity and Merge's row matching compare percentages with them).
func numEqualsByCompare(c *core.Ctx, rule string) {
	p := c.P
	for _, recv := range []string{"Amount", "Percentage"} {
		fd := p.Func("num", recv, "Equals")
		if fd == nil {
			c.Ob(rule, "UNRESOLVED:num."+recv+".Equals", token.NoPos, false, "method not found")
			continue
		}
		ok, why := equalsByCompare(p, fd)
		c.Ob(rule, fd.Name(), fd.Decl.Pos(), ok, "Equals is not Compare == 0 of the two whole quantities ("+why+"): equality would depend on which operand carries more decimals")
	}
}

