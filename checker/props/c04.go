package props

import (
	"fmt"
	"go/ast"
	"go/token"
	"go/types"
	"strings"

	"goblcheck/core"
)

func init() { register("C04", C04) }

// mapLoopAllowed: order-dependent loops accepted with the reason; each is
// additionally required to have no caller in the module's library code.
var mapLoopAllowed = map[string]string{
	"tax.(Extensions).Lookup":            "reverse lookup value→key by design; no caller in the module (checked)",
	"tax.(*ScenarioSet).ExtensionKeys":   "deprecated helper without a caller in the module (checked)",
	"i18n.(String).String#default-first": "falls back to an arbitrary entry only when the default language is missing; every i18n.String literal of the module has the default language (checked)",
}

// C04 — calculation is a deterministic fixpoint and serialisation is lossless.
func C04(c *core.Ctx) {
	p := c.P
	c.Explain("Decided, as necessary conditions of 'calculate ∘ serialise ∘ parse ∘ calculate is the identity': (R1) calculated fields never feed themselves — every field that a recalculation pass over a stored tax summary accumulates into is unconditionally reset in that pass before it is read; (R2) no result depends on map iteration order — every range over a map in library code is classified by its effects: writes keyed by the key, counting, boolean flags, key-equality searches and sorted-afterwards collections are order-independent, anything else is a violation unless listed (with a who-may-call check); (R3) clocks and random identifiers are fenced: time.Now / crypto/rand / uuid generators are referenced only by packages cal, uuid and dsig, and every use of cal.Today*/uuid.V* in calculation code is guarded by an emptiness test of the value it fills, or belongs to the correct/replicate/new-object family, which must set new ones; (R4) custom (un)marshallers lose no member (shared with C08-R4, C08-R5); (R5) scenario notes are removed before being re-added and a note is appended only when no identical note is present; (R6) read-only operations (Validate, Digest, Verify, Extract and the header comparison) store nothing through the envelope or its header. Not decided: byte equality of two executions, idempotence of regex-based normalisers.")
	c.Rule("C04-R1", "calculated accumulator fields are reset before they are read", 2)
	c.Rule("C04-R2", "no dependence on map iteration order", 15)
	c.Rule("C04-R3", "clock and identifier sources are fenced and guarded", 8)
	c.Rule("C04-R4", "custom (un)marshallers lose no member", 10)
	c.Rule("C04-R5", "scenario notes: removed first, appended only when absent", 2)
	c.Rule("C04-R6", "read-only operations store nothing through the envelope", 6)
	c04SelfFeeding(c)
	c04MapLoops(c)
	c04Sources(c)
	blindFields(c, "C04-R4")
	schemaObjectRule(c, "C04-R4")
	c04Stale(c)
	c04InputsKept(c)
	c04InputsRoundedInPlace(c)
	c04CleanCopies(c)
	c04ReadBeforeNormalised(c)
	c04CalcWritesNormaliserInputs(c)
	c04OwnCountryBlanked(c)
	c04RequiresDepth(c)
	c04FreshPayload(c)
	c04DefaultsBeforeNormalisers(c)
	c04ScenarioNotes(c)
	c04ReadOnly(c)
	_ = p
}

// c04SelfFeeding: in the recalculation pass of tax.Total, an accumulation into
// a field of a persisted row needs an unconditional reset of that field, in the
// same function, before the loop that accumulates.
func c04SelfFeeding(c *core.Ctx) {
	p := c.P
	n := 0
	// the recalculation pass: the exported tax.(*Total).Calculate and what it calls in its package
	var pass []*core.FuncDecl
	if root := p.Func("tax", "Total", "Calculate"); root != nil {
		seen := map[*types.Func]bool{root.Obj: true}
		pass = append(pass, root)
		for i := 0; i < len(pass); i++ {
			fd := pass[i]
			ast.Inspect(fd.Decl.Body, func(m ast.Node) bool {
				if call, ok := m.(*ast.CallExpr); ok {
					if fn := core.Callee(fd.Pkg.TypesInfo, call); fn != nil && fn.Pkg() == root.Obj.Pkg() && !seen[fn] {
						seen[fn] = true
						if cfd := p.DeclOf(fn); cfd != nil {
							pass = append(pass, cfd)
						}
					}
				}
				return true
			})
		}
	} else {
		c.Ob("C04-R1", "UNRESOLVED:tax.Total.Calculate", token.NoPos, false, "method not found")
	}
	for _, fd := range pass {
		info := fd.Pkg.TypesInfo
		ld := core.NewLocalDefs(info, fd.Decl.Body)
		// accumulated field locations: direct (L = L.Add) and through a local that is stored
		// back into a field (p.F = &x, p.F = x) and was seeded from that field
		type accLoc struct {
			expr ast.Expr
			pos  token.Pos
			at   ast.Node
		}
		var locs []accLoc
		for _, a := range FindAccums(p, fd) {
			d := ast.Unparen(a.Dest)
			if _, isID := d.(*ast.Ident); !isID {
				locs = append(locs, accLoc{d, a.Assign.Pos(), a.Assign})
				continue
			}
			v := core.VarOf(info, d)
			if v == nil {
				continue
			}
			ast.Inspect(fd.Decl.Body, func(m ast.Node) bool {
				as, ok := m.(*ast.AssignStmt)
				if !ok || len(as.Lhs) != 1 || len(as.Rhs) != 1 || core.FieldOf(info, as.Lhs[0]) == nil {
					return true
				}
				r := ast.Unparen(as.Rhs[0])
				if u, ok := r.(*ast.UnaryExpr); ok && u.Op == token.AND {
					r = ast.Unparen(u.X)
				}
				if core.VarOf(info, r) != v {
					return true
				}
				// does the local ever take its value from the location it is stored in?
				fed := false
				for _, def := range ld.All(v) {
					if def.RHS == nil {
						continue
					}
					ast.Inspect(def.RHS, func(k ast.Node) bool {
						if e, ok := k.(ast.Expr); ok && sameLoc(info, e, as.Lhs[0]) {
							fed = true
						}
						return true
					})
				}
				if fed {
					locs = append(locs, accLoc{as.Lhs[0], a.Assign.Pos(), a.Assign})
				}
				return true
			})
		}
		seen := map[string]bool{}
		for _, l := range locs {
			ks := types.ExprString(l.expr)
			if seen[ks] {
				continue
			}
			seen[ks] = true
			n++
			// an assignment to the same location whose value does not mention the location itself,
			// standing unconditionally before the accumulation: directly in a statement list
			// that, later on, holds the statement containing the accumulation
			reset := false
			var lists [][]ast.Stmt
			ast.Inspect(fd.Decl.Body, func(m ast.Node) bool {
				switch x := m.(type) {
				case *ast.BlockStmt:
					lists = append(lists, x.List)
				case *ast.CaseClause:
					lists = append(lists, x.Body)
				}
				return true
			})
			for _, list := range lists {
				holder := -1
				for i, s := range list {
					if s.Pos() <= l.at.Pos() && l.at.End() <= s.End() {
						holder = i
					}
				}
				for i := 0; i < holder; i++ {
					as, ok := list[i].(*ast.AssignStmt)
					if !ok {
						continue
					}
					for j, lh := range as.Lhs {
						if sameLoc(info, lh, l.expr) && j < len(as.Rhs) {
							self := false
							ast.Inspect(as.Rhs[j], func(m ast.Node) bool {
								if e, ok := m.(ast.Expr); ok && sameLoc(info, e, l.expr) {
									self = true
								}
								return true
							})
							if !self {
								reset = true
							}
						}
					}
				}
			}
			c.Ob("C04-R1", fmt.Sprintf("%s#accumulates:%s", fd.Name(), ks), l.pos, reset,
				fmt.Sprintf("%s accumulates into %s without first resetting it unconditionally: when a stored summary is recalculated the previous value is counted again, so calculating twice gives a different document", fd.Name(), ks))
		}
	}
	// a field that is assigned, after the loop, from a local accumulator that never takes its
	// value from the field: the previous value cannot be counted again
	for _, fd := range pass {
		info := fd.Pkg.TypesInfo
		ld := core.NewLocalDefs(info, fd.Decl.Body)
		ast.Inspect(fd.Decl.Body, func(m ast.Node) bool {
			as, ok := m.(*ast.AssignStmt)
			if !ok || len(as.Lhs) != 1 || len(as.Rhs) != 1 || core.FieldOf(info, as.Lhs[0]) == nil {
				return true
			}
			r := ast.Unparen(as.Rhs[0])
			if u, ok := r.(*ast.UnaryExpr); ok && u.Op == token.AND {
				r = ast.Unparen(u.X)
			}
			v := core.VarOf(info, r)
			if v == nil || v.IsField() || !isAmountLike(v.Type()) {
				return true
			}
			self, fed := false, false
			for _, def := range ld.All(v) {
				if def.RHS == nil {
					continue
				}
				ast.Inspect(def.RHS, func(k ast.Node) bool {
					if id, ok := k.(*ast.Ident); ok && info.Uses[id] == types.Object(v) {
						self = true
					}
					if e, ok := k.(ast.Expr); ok && sameLoc(info, e, as.Lhs[0]) {
						fed = true
					}
					return true
				})
			}
			if self && !fed {
				n++
				c.Ob("C04-R1", fmt.Sprintf("%s#fresh-accumulator:%s", fd.Name(), types.ExprString(as.Lhs[0])), as.Pos(), true, "")
			}
			return true
		})
	}
	if n < 1 {
		c.Ob("C04-R1", "UNRESOLVED:accumulated-fields", token.NoPos, false, fmt.Sprintf("only %d accumulated fields found in the tax total pass", n))
	}
	// bill.Totals.reset covers the document totals: decided under C01-R2; the pass calls reset before anything else
	if fd := p.Func("bill", "", "calculate"); fd != nil {
		info := fd.Pkg.TypesInfo
		resets := core.CallsTo(info, fd.Decl.Body, func(f *types.Func) bool { return core.IsFunc(f, core.ModPath+"/bill", "Totals", "reset") })
		ok := len(resets) == 1
		if ok {
			// no read of a Totals amount field before the reset
			ast.Inspect(fd.Decl.Body, func(m ast.Node) bool {
				se, isS := m.(*ast.SelectorExpr)
				if !isS || se.Pos() > resets[0].Pos() {
					return true
				}
				if f := core.FieldOf(info, se); f != nil && core.TypeString(info.TypeOf(se.X)) == "*bill.Totals" && strings.Contains(core.TypeString(f.Type()), "num.Amount") && f.Name() != "Rounding" {
					ok = false
				}
				return true
			})
		}
		c.Ob("C04-R1", fd.Name()+"#totals-reset-first", fd.Decl.Pos(), ok, "the document totals are read before Totals.reset clears them (or reset is not called exactly once)")
	}
}

func c04MapLoops(c *core.Ctx) {
	p := c.P
	cg := buildCallers(p)
	idx := map[string]int{}
	n := 0
	for _, ml := range classifyMapLoops(p) {
		rel := core.RelPkg(ml.FD.Obj.Pkg().Path())
		if strings.HasPrefix(rel, "internal/") || strings.HasPrefix(rel, "cmd/") || strings.HasPrefix(rel, "examples") || rel == "wasm" || strings.HasSuffix(p.RelFile(ml.FD.Decl.Pos()), "mage.go") {
			continue // command-line plumbing: not part of calculate / serialise
		}
		n++
		idx[ml.FD.Name()]++
		key := mapLoopKey(p, ml, idx[ml.FD.Name()])
		if ml.Class == "independent" {
			c.Ob("C04-R2", key, ml.Stmt.Pos(), true, "")
			continue
		}
		name := ml.FD.Name()
		if reason, ok := mapLoopAllowed[name]; ok {
			// no module caller outside tests
			var callers []string
			for _, cl := range cg.callersOf(ml.FD.Obj) {
				callers = append(callers, core.FuncName(cl))
			}
			c.Ob("C04-R2", key, ml.Stmt.Pos(), len(callers) == 0, "order-dependent loop ("+ml.Why+") accepted only while nothing in the module calls it; now called by "+strings.Join(callers, ", "))
			c.Note("accepted order-dependent loop %s: %s", name, reason)
			continue
		}
		if name == "i18n.(String).String" {
			ok, why := i18nLiteralsHaveDefault(c)
			c.Ob("C04-R2", key, ml.Stmt.Pos(), ok, "String() returns an arbitrary entry when the default language is missing, and "+why)
			c.Note("accepted order-dependent loop %s: %s", name, mapLoopAllowed["i18n.(String).String#default-first"])
			continue
		}
		c.Ob("C04-R2", key, ml.Stmt.Pos(), false, "the result depends on the iteration order of a map, which differs between runs: "+ml.Why)
	}
	c.Extra("map_range_loops_in_library_code", n)
}

// i18nLiteralsHaveDefault folds every i18n.String literal of the module.
func i18nLiteralsHaveDefault(c *core.Ctx) (bool, string) {
	p := c.P
	total, missing := 0, 0
	first := ""
	var defLang string
	if pk := p.Pkg("i18n"); pk != nil {
		for _, file := range pk.Syntax {
			ast.Inspect(file, func(n ast.Node) bool {
				if vs, ok := n.(*ast.ValueSpec); ok {
					for i, nm := range vs.Names {
						if nm.Name == "defaultLanguage" && i < len(vs.Values) {
							if s, ok := foldString(pk.TypesInfo, vs.Values[i]); ok {
								defLang = s
							}
						}
					}
				}
				return true
			})
		}
	}
	if defLang == "" {
		return false, "the default language constant could not be folded"
	}
	for _, pk := range p.Pkgs {
		for _, file := range pk.Syntax {
			if p.IsTestFile(file.Pos()) {
				continue
			}
			ast.Inspect(file, func(n ast.Node) bool {
				cl, ok := n.(*ast.CompositeLit)
				if !ok {
					return true
				}
				t := pk.TypesInfo.TypeOf(cl)
				if t == nil {
					return true
				}
				if pt, isP := t.(*types.Pointer); isP {
					t = pt.Elem()
				}
				if core.TypeString(t) != "i18n.String" || len(cl.Elts) == 0 {
					return true
				}
				total++
				has := false
				for _, el := range cl.Elts {
					if kv, ok := el.(*ast.KeyValueExpr); ok {
						if s, ok := foldString(pk.TypesInfo, kv.Key); ok && s == defLang {
							has = true
						}
					}
				}
				if !has && len(cl.Elts) > 1 { // a single entry is returned whatever the order
					missing++
					if first == "" {
						first = p.Rel(cl.Pos())
					}
				}
				return true
			})
		}
	}
	c.Extra("i18n_string_literals", total)
	if total < 500 {
		return false, fmt.Sprintf("only %d i18n.String literals were found", total)
	}
	if missing > 0 {
		return false, fmt.Sprintf("%d of %d multi-language i18n.String literals lack the default language %q (first at %s)", missing, total, defLang, first)
	}
	return true, ""
}

func c04Sources(c *core.Ctx) {
	p := c.P
	primary := func(f *types.Func) bool {
		if f.Pkg() == nil {
			return false
		}
		switch f.Pkg().Path() {
		case "time":
			return f.Name() == "Now" && core.RecvNamed(f) == nil
		case "crypto/rand", "math/rand", "math/rand/v2":
			return true
		case "github.com/google/uuid":
			return strings.HasPrefix(f.Name(), "New") && f.Name() != "NewMD5" && f.Name() != "NewSHA1"
		}
		return false
	}
	allowedPkg := map[string]bool{"cal": true, "uuid": true, "dsig": true}
	wrappers := func(f *types.Func) bool {
		if f.Pkg() == nil || core.RecvNamed(f) != nil {
			return false
		}
		switch core.RelPkg(f.Pkg().Path()) {
		case "cal":
			return strings.HasPrefix(f.Name(), "Today") || strings.HasPrefix(f.Name(), "ThisSecond")
		case "uuid":
			return f.Name() == "V1" || f.Name() == "V4" || f.Name() == "V6" || f.Name() == "V7"
		}
		return false
	}
	for _, fd := range p.AllFuncs() {
		rel := core.RelPkg(fd.Obj.Pkg().Path())
		if strings.HasPrefix(rel, "examples") || strings.HasPrefix(rel, "cmd/") || strings.HasPrefix(rel, "internal/") || rel == "wasm" || strings.HasSuffix(p.RelFile(fd.Decl.Pos()), "mage.go") {
			continue
		}
		info := fd.Pkg.TypesInfo
		var ff *core.FuncFlow
		i := 0
		ast.Inspect(fd.Decl.Body, func(n ast.Node) bool {
			call, ok := n.(*ast.CallExpr)
			if !ok {
				return true
			}
			fn := core.Callee(info, call)
			if fn == nil {
				return true
			}
			// crypto/rand.Reader used as a value
			if primary(fn) {
				i++
				c.Ob("C04-R3", fmt.Sprintf("%s#source:%s.%s%d", fd.Name(), fn.Pkg().Name(), fn.Name(), i), call.Pos(), allowedPkg[rel],
					fmt.Sprintf("%s.%s is called outside the packages that fence clocks and random identifiers (cal, uuid, dsig): results differ between runs", fn.Pkg().Name(), fn.Name()))
				return true
			}
			if !wrappers(fn) || allowedPkg[rel] {
				return true
			}
			i++
			key := fmt.Sprintf("%s#uses:%s.%s%d", fd.Name(), fn.Pkg().Name(), fn.Name(), i)
			// (ii) the correct / replicate / constructor family must set new values
			if c04SetsNewValues(p, fd.Obj, 0, &c04cg) {
				c.Ob("C04-R3", key, call.Pos(), true, "")
				return true
			}
			// (i) guarded by an emptiness test
			if ff == nil {
				ff = core.NewFuncFlow(fd)
			}
			guarded := false
			if node := ff.Flow.EnclosingNode(call); node != nil {
				for leaf, val := range ff.Flow.CondsAt(node) {
					if !val {
						continue
					}
					switch x := ast.Unparen(leaf).(type) {
					case *ast.CallExpr:
						if f := core.Callee(info, x); f != nil && (f.Name() == "IsZero" || f.Name() == "IsEmpty") {
							guarded = true
						}
					case *ast.BinaryExpr:
						if x.Op == token.EQL {
							if s, ok := foldString(info, x.Y); ok && s == "" {
								guarded = true
							}
						}
					}
				}
			}
			if !guarded && rel == "l10n" {
				c.Ob("C04-R3", key, call.Pos(), true, "")
				c.Note("documented date dependency: %s uses today's date to decide union membership (the property holds 'once dates are fixed')", fd.Name())
				return true
			}
			c.Ob("C04-R3", key, call.Pos(), guarded,
				fmt.Sprintf("%s fills in %s.%s() unconditionally: a second calculation replaces an identifier or date that was already set, so the document changes on every Calculate", fd.Name(), fn.Pkg().Name(), fn.Name()))
			return true
		})
	}
}

func c04ScenarioNotes(c *core.Ctx) {
	p := c.P
	found := false
	for _, fd := range p.Funcs(p.Pkg("bill")) {
		info := fd.Pkg.TypesInfo
		recv := recvVar(fd)
		if recv == nil {
			continue
		}
		// appends to <recv>.Notes a value built by NoteFromScenario
		ld := core.NewLocalDefs(info, fd.Decl.Body)
		ast.Inspect(fd.Decl.Body, func(n ast.Node) bool {
			as, ok := n.(*ast.AssignStmt)
			if !ok || len(as.Lhs) != 1 || !core.IsFieldOfVar(info, as.Lhs[0], recv, "Notes") {
				return true
			}
			call, ok := ast.Unparen(as.Rhs[0]).(*ast.CallExpr)
			if !ok || len(call.Args) != 2 {
				return true
			}
			if id, ok := call.Fun.(*ast.Ident); !ok || id.Name != "append" {
				return true
			}
			v := core.VarOf(info, call.Args[1])
			if v == nil {
				if dc, ok := ast.Unparen(call.Args[1]).(*ast.CallExpr); ok {
					if f := core.Callee(info, dc); f != nil && f.Name() == "NoteFromScenario" {
						found = true
						c.Ob("C04-R5", fd.Name()+"#append-only-when-absent", as.Pos(), false,
							"a scenario note is appended without checking that the invoice does not already carry the same note: every calculation adds another copy")
					}
				}
				return true
			}
			fromScenario := false
			for _, d := range ld.All(v) {
				if d.RHS == nil {
					continue
				}
				if dc, ok := ast.Unparen(d.RHS).(*ast.CallExpr); ok {
					if f := core.Callee(info, dc); f != nil && f.Name() == "NoteFromScenario" {
						fromScenario = true
					}
				}
			}
			if !fromScenario {
				return true
			}
			found = true
			// guarded by v != nil, with `v = nil` under SameAs(range element of recv.Notes)
			nilGuard := false
			for _, cnd := range enclosingConds(fd.Decl.Body, as) {
				g := core.GuardOf(info, cnd, nil)
				if g.Kind == "nil" && g.Neg && core.VarOf(info, g.X) == v {
					nilGuard = true
				}
			}
			dupCheck := false
			ast.Inspect(fd.Decl.Body, func(m ast.Node) bool {
				rs, ok := m.(*ast.RangeStmt)
				if !ok || !core.IsFieldOfVar(info, rs.X, recv, "Notes") {
					return true
				}
				el := core.VarOf(info, rs.Value)
				ast.Inspect(rs.Body, func(k ast.Node) bool {
					is, ok := k.(*ast.IfStmt)
					if !ok {
						return true
					}
					sc, ok := ast.Unparen(is.Cond).(*ast.CallExpr)
					if !ok {
						return true
					}
					if f := core.Callee(info, sc); f == nil || f.Name() != "SameAs" || core.VarOf(info, core.RecvExpr(sc)) != v || len(sc.Args) != 1 || core.VarOf(info, sc.Args[0]) != el {
						return true
					}
					for _, s := range is.Body.List {
						if a2, ok := s.(*ast.AssignStmt); ok && len(a2.Lhs) == 1 && core.VarOf(info, a2.Lhs[0]) == v && core.IsNil(info, a2.Rhs[0]) {
							dupCheck = true
						}
					}
					return true
				})
				return true
			})
			// second accepted form: the append lies where a search predicate — a function that
			// ranges over the notes and returns true exactly when one is SameAs the given note —
			// was found false for this note
			absentFact := false
			ffA := core.NewFuncFlow(fd)
			if node := ffA.Flow.EnclosingNode(as); node != nil {
				for leaf, val := range ffA.Flow.CondsAt(node) {
					pc, ok := ast.Unparen(leaf).(*ast.CallExpr)
					if !ok || val {
						continue
					}
					pf := core.Callee(info, pc)
					if pf == nil || !core.InModule(pf.Pkg()) {
						continue
					}
					passes := false
					argIdx := -1
					for i, a := range pc.Args {
						if core.VarOf(info, a) == v {
							passes, argIdx = true, i
						}
					}
					if passes && c04SameAsSearch(p, pf, argIdx) {
						absentFact = true
					}
				}
			}
			c.Ob("C04-R5", fd.Name()+"#append-only-when-absent", as.Pos(), (nilGuard && dupCheck) || absentFact,
				"a scenario note is appended without checking that the invoice does not already carry the same note: every calculation adds another copy")
			// removal first
			ff := core.NewFuncFlow(fd)
			removed := false
			if node := ff.Flow.EnclosingNode(as); node != nil {
				for pc := range ff.Flow.PassedAt(node) {
					if f := core.Callee(info, pc); f != nil {
						if path := p.Reaches(f, func(g *types.Func) bool { return g.Name() == "removePreviousScenarioNotes" }, 3); path != nil {
							removed = true
						}
					}
				}
			}
			c.Ob("C04-R5", fd.Name()+"#removed-before-added", as.Pos(), removed, "scenario notes of a previous calculation are not removed before the current ones are added")
			return true
		})
	}
	if !found {
		c.Ob("C04-R5", "UNRESOLVED:scenario-note-append", token.NoPos, false, "no append of a scenario note to an invoice's notes found")
	}
}

// c04ReadOnly: Validate*, Digest, Verify*, Extract on the envelope, and the
// header comparison they rely on, store nothing through their receiver or
// arguments and do not reorder (sort) slices reachable from them.
func c04ReadOnly(c *core.Ctx) {
	p := c.P
	type target struct{ pkg, recv, name string }
	targets := []target{
		{"", "Envelope", "Validate"}, {"", "Envelope", "ValidateWithContext"}, {"", "Envelope", "Digest"},
		{"", "Envelope", "Verify"}, {"", "Envelope", "VerifySignature"}, {"", "Envelope", "verifySignature"},
		{"", "Envelope", "verifyDigest"}, {"", "Envelope", "Extract"}, {"", "Envelope", "Signed"},
		{"head", "Header", "Contains"}, {"dsig", "Digest", "Equals"},
	}
	for _, t := range targets {
		fd := p.Func(t.pkg, t.recv, t.name)
		if fd == nil {
			c.Ob("C04-R6", "UNRESOLVED:"+t.recv+"."+t.name, token.NoPos, false, "method not found")
			continue
		}
		info := fd.Pkg.TypesInfo
		sig := fd.Obj.Type().(*types.Signature)
		owned := map[*types.Var]bool{sig.Recv(): true}
		for i := 0; i < sig.Params().Len(); i++ {
			if refLike(sig.Params().At(i).Type()) {
				owned[sig.Params().At(i)] = true
			}
		}
		// local aliases of slices/pointers reachable from them
		for iter := 0; iter < 3; iter++ {
			ast.Inspect(fd.Decl.Body, func(n ast.Node) bool {
				if as, ok := n.(*ast.AssignStmt); ok && len(as.Lhs) == len(as.Rhs) {
					for i, l := range as.Lhs {
						if v := core.VarOf(info, l); v != nil && refLike(v.Type()) {
							r := ast.Unparen(as.Rhs[i])
							if _, isCall := r.(*ast.CallExpr); isCall {
								continue
							}
							if rv := core.RootVar(info, r); rv != nil && owned[rv] {
								owned[v] = true
							}
						}
					}
				}
				return true
			})
		}
		bad := ""
		ast.Inspect(fd.Decl.Body, func(n ast.Node) bool {
			switch s := n.(type) {
			case *ast.AssignStmt:
				for _, l := range s.Lhs {
					if _, isID := ast.Unparen(l).(*ast.Ident); isID {
						continue
					}
					if rv := core.RootVar(info, l); rv != nil && owned[rv] {
						// the context parameter being re-bound is an identifier; anything else is a store
						bad = "stores into " + types.ExprString(l)
					}
				}
			case *ast.CallExpr:
				if fn := core.Callee(info, s); fn != nil && fn.Pkg() != nil && (fn.Pkg().Path() == "sort" || fn.Pkg().Path() == "slices") {
					if strings.HasPrefix(fn.Name(), "Sort") || fn.Name() == "Slice" || fn.Name() == "SliceStable" || fn.Name() == "Strings" || fn.Name() == "Reverse" {
						for _, a := range s.Args {
							if rv := core.RootVar(info, a); rv != nil && owned[rv] {
								bad = "sorts " + types.ExprString(a) + " in place"
							}
						}
					}
				}
			}
			return true
		})
		c.Ob("C04-R6", fd.Name()+"#read-only", fd.Decl.Pos(), bad == "", "a read-only operation changes the envelope: "+bad)
	}
}

// c04SameAsSearch: the function ranges over a list of notes and returns true
// where `<param argIdx>.SameAs(element)` (or the symmetric call) holds, and
// false after the loop.
func c04SameAsSearch(p *core.Program, fn *types.Func, argIdx int) bool {
	fd := p.RawDeclOf(fn)
	if fd == nil {
		return false
	}
	sig := fn.Type().(*types.Signature)
	if sig.Results().Len() != 1 || core.TypeString(sig.Results().At(0).Type()) != "bool" || argIdx >= sig.Params().Len() {
		return false
	}
	note := sig.Params().At(argIdx)
	info := fd.Pkg.TypesInfo
	trueUnderMatch, falseAtEnd := false, false
	for _, s := range fd.Decl.Body.List {
		switch x := s.(type) {
		case *ast.RangeStmt:
			el := core.VarOf(info, x.Value)
			if f := core.FieldOf(info, x.X); (f == nil || f.Name() != "Notes") && core.VarOf(info, x.X) == nil {
				return false
			}
			ast.Inspect(x.Body, func(n ast.Node) bool {
				is, ok := n.(*ast.IfStmt)
				if !ok {
					return true
				}
				sc, ok := ast.Unparen(is.Cond).(*ast.CallExpr)
				if !ok || len(sc.Args) != 1 {
					return true
				}
				if f := core.Callee(info, sc); f == nil || f.Name() != "SameAs" {
					return true
				}
				a, b := core.VarOf(info, core.RecvExpr(sc)), core.VarOf(info, sc.Args[0])
				if !((a == note && b == el) || (a == el && b == note)) || el == nil {
					return true
				}
				for _, bs := range is.Body.List {
					if r, ok := bs.(*ast.ReturnStmt); ok && len(r.Results) == 1 {
						if tv := info.Types[r.Results[0]]; tv.Value != nil && tv.Value.String() == "true" {
							trueUnderMatch = true
						}
					}
				}
				return true
			})
		case *ast.ReturnStmt:
			if len(x.Results) == 1 {
				if tv := info.Types[x.Results[0]]; tv.Value != nil && tv.Value.String() == "false" {
					falseAtEnd = true
				}
			}
		}
	}
	return trueUnderMatch && falseAtEnd
}

var c04cg *callers

// c04SetsNewValues: the function belongs to the correct / replicate /
// constructor family, whose purpose is to set new identifiers and dates — by
// its own name, or because it is an unexported helper all of whose callers
// belong to that family.
func c04SetsNewValues(p *core.Program, fn *types.Func, depth int, cg **callers) bool {
	lname := strings.ToLower(fn.Name())
	if strings.HasPrefix(lname, "correct") || strings.HasPrefix(lname, "replicate") || strings.HasPrefix(fn.Name(), "New") {
		return true
	}
	if fn.Exported() || depth > 3 {
		return false
	}
	if *cg == nil || (*cg).p != p {
		*cg = buildCallers(p)
	}
	cs := (*cg).callersOf(fn)
	if len(cs) == 0 {
		return false
	}
	for _, cf := range cs {
		if cf == fn || !c04SetsNewValues(p, cf, depth+1, cg) {
			return false
		}
	}
	return true
}
