package props

import (
	"fmt"
	"go/ast"
	"go/token"
	"go/types"
	"sort"
	"strings"

	"goblcheck/core"
)

// c04ReadBeforeNormalised — C04-R12: a document's Normalize runs the regime and
// addon normalisers of the document itself (normalizers.Each(doc)) before it
// normalises the members (tax.Normalize(normalizers, doc.Supplier) …). A
// document-level normaliser that reads a member's text which that member's own
// normalisation rewrites afterwards (trimming, upper-casing, prefix removal)
// sees the raw spelling on the first calculation and the normalised one on the
// second — the first result is not a fixpoint. Reported: a decision (switch tag,
// comparison with a constant, membership or pattern test) on a field of a nested
// type read directly in a document-level normaliser of package regimes/** or
// addons/** while the nested type's own Normalize method writes that field,
// unless the read is itself wrapped in a normalising call (strings.TrimSpace,
// cbc.NormalizeString, …).
func c04ReadBeforeNormalised(c *core.Ctx) {
	p := c.P
	c.Rule("C04-R12", "document-level normalisers do not read member text that the member's own normalisation rewrites afterwards", 0)
	// the functions are judged as written in both views: a normaliser dissolved into its
	// dispatcher is the same normaliser
	saved := p.InlineMode
	p.InlineMode = false
	defer func() { p.InlineMode = saved }()
	fe := effectsOf(p)
	// fields each type's own Normalize writes (directly or through callees), restricted to its own fields
	ownWrites := map[*types.Var]string{}
	for _, fd := range p.AllFuncs() {
		if fd.Obj.Name() != "Normalize" || fd.Decl.Recv == nil || p.IsTestFile(fd.Decl.Pos()) {
			continue
		}
		n := core.RecvNamed(fd.Obj)
		if n == nil {
			continue
		}
		st, ok := n.Underlying().(*types.Struct)
		if !ok {
			continue
		}
		own := map[*types.Var]bool{}
		for i := 0; i < st.NumFields(); i++ {
			own[st.Field(i)] = true
		}
		for f := range fe.writes[fd.Obj] {
			if own[f] {
				if b, isBasic := f.Type().Underlying().(*types.Basic); isBasic && b.Info()&types.IsString != 0 {
					ownWrites[f] = core.TypeName(n)
				}
			}
		}
	}
	docTypes := map[string]bool{"bill.Invoice": true, "bill.Order": true, "bill.Delivery": true, "bill.Payment": true}
	n := 0
	for _, fd := range p.AllFuncs() {
		if p.IsTestFile(fd.Decl.Pos()) || fd.Decl.Body == nil {
			continue
		}
		rel := core.RelPkg(fd.Obj.Pkg().Path())
		if !strings.HasPrefix(rel, "regimes/") && !strings.HasPrefix(rel, "addons/") {
			continue
		}
		sig := fd.Obj.Type().(*types.Signature)
		if sig.Params().Len() != 1 || sig.Results().Len() != 0 {
			continue
		}
		pn, _ := core.StructOf(sig.Params().At(0).Type())
		if pn == nil || !docTypes[core.TypeName(pn)] {
			continue
		}
		if !strings.Contains(strings.ToLower(fd.Obj.Name()), "normal") && !strings.Contains(strings.ToLower(fd.Obj.Name()), "migrat") {
			continue
		}
		info := fd.Pkg.TypesInfo
		seen := map[string]bool{}
		var walk func(body ast.Node, via string)
		walk = func(body ast.Node, via string) {
			lhs := map[ast.Expr]bool{}
			ast.Inspect(body, func(m ast.Node) bool {
				if as, ok := m.(*ast.AssignStmt); ok {
					for _, l := range as.Lhs {
						lhs[ast.Unparen(l)] = true
					}
				}
				return true
			})
			var stack []ast.Node
			ast.Inspect(body, func(m ast.Node) bool {
				if m == nil {
					stack = stack[:len(stack)-1]
					return false
				}
				stack = append(stack, m)
				se, ok := m.(*ast.SelectorExpr)
				if !ok || lhs[se] {
					return true
				}
				f := core.FieldOf(info, se)
				if f == nil {
					return true
				}
				owner, isW := ownWrites[f]
				if !isW || owner == core.TypeName(pn) {
					return true
				}
				// only a decision taken on the text matters here: a switch tag, a comparison with a
				// non-empty constant, a membership or pattern test (the raw spelling may fail a test the
				// normalised one passes); text that is merely copied is the copy's business
				decides := false
				for i := len(stack) - 2; i >= 0 && i >= len(stack)-5; i-- {
					switch x := stack[i].(type) {
					case *ast.SwitchStmt:
						if x.Tag != nil && x.Tag.Pos() <= se.Pos() && se.End() <= x.Tag.End() {
							decides = true
						}
					case *ast.BinaryExpr:
						if x.Op == token.EQL || x.Op == token.NEQ {
							for _, side := range []ast.Expr{x.X, x.Y} {
								if tv, ok := info.Types[side]; ok && tv.Value != nil && tv.Value.ExactString() != `""` {
									decides = true
								}
							}
						}
					case *ast.CallExpr:
						if fn := core.Callee(info, x); fn != nil {
							switch fn.Name() {
							case "In", "MatchString", "Match", "HasPrefix", "HasSuffix", "Contains", "EqualFold":
								decides = true
							}
						}
					}
				}
				if !decides {
					return true
				}
				// wrapped in a normalising call?
				wrapped := false
				for i := len(stack) - 2; i >= 0 && i >= len(stack)-4; i-- {
					if call, ok := stack[i].(*ast.CallExpr); ok {
						if fn := core.Callee(info, call); fn != nil {
							switch fn.Name() {
							case "TrimSpace", "NormalizeString", "NormalizeCode", "NormalizeAlphanumericalCode", "NormalizeNumericalCode", "Trim":
								wrapped = true
							}
						}
					}
				}
				n++
				key := fmt.Sprintf("%s#reads:%s.%s", fd.Name(), owner, f.Name())
				if seen[key] {
					return true
				}
				seen[key] = true
				c.Ob("C04-R12", key, se.Pos(), wrapped, fmt.Sprintf("%s%s runs before the members of the document are normalised and reads %s.%s as typed; %s.Normalize rewrites that text afterwards: what is derived from it differs between the first calculation and the second (calculate → serialise → parse → calculate is not a fixpoint for padded or differently spelled input)", fd.Name(), via, owner, f.Name(), owner))
				return true
			})
		}
		walk(fd.Decl.Body, "")
	}
	c.Extra("C04-R12_member_text_reads_in_document_normalisers", n)
	_ = sort.Strings
	_ = token.NoPos
}


// c04CalcWritesNormaliserInputs — C04-R13: the calculation step of package bill
// (everything bill.calculate reaches inside the package) runs after the
// normalisers; it does not write a member of a tax combo that a regime or addon
// combo normaliser reads. A combo is input: what the calculation writes into
// it is what the next pass's normalisers see, so the first result is not what
// a second calculation gives (the customer-rates tag writes the customer's
// country into every combo after the Portuguese normalisers have derived
// pt-region from the country that was there).
func c04CalcWritesNormaliserInputs(c *core.Ctx) {
	p := c.P
	c.Rule("C04-R13", "the bill calculation writes no tax combo member that combo normalisers read", 0)
	saved := p.InlineMode
	p.InlineMode = false
	defer func() { p.InlineMode = saved }()
	calc := p.Func("bill", "", "calculate")
	combo := p.Named("tax", "Combo")
	if calc == nil || combo == nil {
		c.Ob("C04-R13", "UNRESOLVED:bill.calculate", token.NoPos, false, "function or type not found")
		return
	}
	comboField := map[*types.Var]bool{}
	if st, ok := combo.Underlying().(*types.Struct); ok {
		for i := 0; i < st.NumFields(); i++ {
			comboField[st.Field(i)] = true
		}
	}
	// who reads which combo member among the regime / addon normalisers
	normReads := map[*types.Var][]string{}
	for _, fd := range p.AllFuncs() {
		rel := core.RelPkg(fd.Obj.Pkg().Path())
		if (!strings.HasPrefix(rel, "regimes/") && !strings.HasPrefix(rel, "addons/")) || p.IsTestFile(fd.Decl.Pos()) {
			continue
		}
		if !strings.Contains(strings.ToLower(fd.Obj.Name()), "normal") {
			continue
		}
		info := fd.Pkg.TypesInfo
		lhs := map[ast.Expr]bool{}
		ast.Inspect(fd.Decl.Body, func(m ast.Node) bool {
			if as, ok := m.(*ast.AssignStmt); ok {
				for _, l := range as.Lhs {
					lhs[ast.Unparen(l)] = true
				}
			}
			return true
		})
		ast.Inspect(fd.Decl.Body, func(m ast.Node) bool {
			if se, ok := m.(*ast.SelectorExpr); ok && !lhs[se] {
				if f := core.FieldOf(info, se); f != nil && comboField[f] {
					normReads[f] = append(normReads[f], fd.Name())
				}
			}
			return true
		})
	}
	// package bill functions reached from calculate
	seen := map[*types.Func]bool{calc.Obj: true}
	work := []*types.Func{calc.Obj}
	for len(work) > 0 {
		f := work[0]
		work = work[1:]
		for _, g := range p.FuncRefs(f) {
			if g.Pkg() == calc.Obj.Pkg() && !seen[g] && p.DeclOf(g) != nil {
				seen[g] = true
				work = append(work, g)
			}
		}
	}
	var fns []*types.Func
	for f := range seen {
		fns = append(fns, f)
	}
	sort.Slice(fns, func(i, j int) bool { return core.FuncName(fns[i]) < core.FuncName(fns[j]) })
	n := 0
	for _, f := range fns {
		fd := p.DeclOf(f)
		info := fd.Pkg.TypesInfo
		ast.Inspect(fd.Decl.Body, func(m ast.Node) bool {
			as, ok := m.(*ast.AssignStmt)
			if !ok {
				return true
			}
			for _, l := range as.Lhs {
				fl := core.FieldOf(info, ast.Unparen(l))
				if fl == nil || !comboField[fl] {
					continue
				}
				n++
				readers := uniq(normReads[fl])
				c.Ob("C04-R13", fmt.Sprintf("%s#writes:tax.Combo.%s", fd.Name(), fl.Name()), as.Pos(), len(readers) == 0,
					fmt.Sprintf("%s, part of the calculation that follows normalisation, writes tax.Combo.%s, which %d combo normalisers read (%s): the first calculation normalises the combo as typed, the second what the first wrote — calculate → serialise → parse → calculate is not a fixpoint", fd.Name(), fl.Name(), len(readers), strings.Join(readers, ", ")))
			}
			return true
		})
	}
	c.Extra("C04-R13_combo_member_writes_in_bill_calculation", n)
}
