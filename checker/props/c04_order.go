package props

import (
	"fmt"
	"go/ast"
	"go/token"
	"go/types"
	"sort"
	"strings"

	"goblcheck/core"
)

// c04ReadBeforeNormalised — C04-R12: a document's Normalize runs the regime and
// addon normalisers of the document itself (normalizers.Each(doc)) before it
// normalises the members (tax.Normalize(normalizers, doc.Supplier) …). A
// document-level normaliser that reads a member's text which that member's own
// normalisation rewrites afterwards (trimming, upper-casing, prefix removal)
// sees the raw spelling on the first calculation and the normalised one on the
// second — the first result is not a fixpoint. Reported: a decision (switch tag,
// comparison with a constant, membership or pattern test) on a field of a nested
// type read directly in a document-level normaliser of package regimes/** or
// addons/** while the nested type's own Normalize method writes that field,
// unless the read is itself wrapped in a normalising call (strings.TrimSpace,
// cbc.NormalizeString, …).
func c04ReadBeforeNormalised(c *core.Ctx) {
	p := c.P
	c.Rule("C04-R12", "document-level normalisers do not read member text that the member's own normalisation rewrites afterwards", 0)
	// the functions are judged as written in both views: a normaliser dissolved into its
	// dispatcher is the same normaliser
	saved := p.InlineMode
	p.InlineMode = false
	defer func() { p.InlineMode = saved }()
	fe := effectsOf(p)
	// fields each type's own Normalize writes (directly or through callees), restricted to its own fields
	ownWrites := map[*types.Var]string{}
	for _, fd := range p.AllFuncs() {
		if fd.Obj.Name() != "Normalize" || fd.Decl.Recv == nil || p.IsTestFile(fd.Decl.Pos()) {
			continue
		}
		n := core.RecvNamed(fd.Obj)
		if n == nil {
			continue
		}
		st, ok := n.Underlying().(*types.Struct)
		if !ok {
			continue
		}
		own := map[*types.Var]bool{}
		for i := 0; i < st.NumFields(); i++ {
			own[st.Field(i)] = true
		}
		for f := range fe.writes[fd.Obj] {
			if own[f] {
				if b, isBasic := f.Type().Underlying().(*types.Basic); isBasic && b.Info()&types.IsString != 0 {
					ownWrites[f] = core.TypeName(n)
				}
			}
		}
	}
	docTypes := map[string]bool{"bill.Invoice": true, "bill.Order": true, "bill.Delivery": true, "bill.Payment": true}
	n := 0
	for _, fd := range p.AllFuncs() {
		if p.IsTestFile(fd.Decl.Pos()) || fd.Decl.Body == nil {
			continue
		}
		rel := core.RelPkg(fd.Obj.Pkg().Path())
		if !strings.HasPrefix(rel, "regimes/") && !strings.HasPrefix(rel, "addons/") {
			continue
		}
		sig := fd.Obj.Type().(*types.Signature)
		if sig.Params().Len() != 1 || sig.Results().Len() != 0 {
			continue
		}
		pn, _ := core.StructOf(sig.Params().At(0).Type())
		if pn == nil || !docTypes[core.TypeName(pn)] {
			continue
		}
		if !strings.Contains(strings.ToLower(fd.Obj.Name()), "normal") && !strings.Contains(strings.ToLower(fd.Obj.Name()), "migrat") {
			continue
		}
		info := fd.Pkg.TypesInfo
		seen := map[string]bool{}
		var walk func(body ast.Node, via string)
		walk = func(body ast.Node, via string) {
			lhs := map[ast.Expr]bool{}
			ast.Inspect(body, func(m ast.Node) bool {
				if as, ok := m.(*ast.AssignStmt); ok {
					for _, l := range as.Lhs {
						lhs[ast.Unparen(l)] = true
					}
				}
				return true
			})
			var stack []ast.Node
			ast.Inspect(body, func(m ast.Node) bool {
				if m == nil {
					stack = stack[:len(stack)-1]
					return false
				}
				stack = append(stack, m)
				se, ok := m.(*ast.SelectorExpr)
				if !ok || lhs[se] {
					return true
				}
				f := core.FieldOf(info, se)
				if f == nil {
					return true
				}
				owner, isW := ownWrites[f]
				if !isW || owner == core.TypeName(pn) {
					return true
				}
				// only a decision taken on the text matters here: a switch tag, a comparison with a
				// non-empty constant, a membership or pattern test (the raw spelling may fail a test the
				// normalised one passes); text that is merely copied is the copy's business
				decides := false
				for i := len(stack) - 2; i >= 0 && i >= len(stack)-5; i-- {
					switch x := stack[i].(type) {
					case *ast.SwitchStmt:
						if x.Tag != nil && x.Tag.Pos() <= se.Pos() && se.End() <= x.Tag.End() {
							decides = true
						}
					case *ast.BinaryExpr:
						if x.Op == token.EQL || x.Op == token.NEQ {
							for _, side := range []ast.Expr{x.X, x.Y} {
								if tv, ok := info.Types[side]; ok && tv.Value != nil && tv.Value.ExactString() != `""` {
									decides = true
								}
							}
						}
					case *ast.CallExpr:
						if fn := core.Callee(info, x); fn != nil {
							switch fn.Name() {
							case "In", "MatchString", "Match", "HasPrefix", "HasSuffix", "Contains", "EqualFold":
								decides = true
							}
						}
					}
				}
				if !decides {
					return true
				}
				// wrapped in a normalising call?
				wrapped := false
				for i := len(stack) - 2; i >= 0 && i >= len(stack)-4; i-- {
					if call, ok := stack[i].(*ast.CallExpr); ok {
						if fn := core.Callee(info, call); fn != nil {
							switch fn.Name() {
							case "TrimSpace", "NormalizeString", "NormalizeCode", "NormalizeAlphanumericalCode", "NormalizeNumericalCode", "Trim":
								wrapped = true
							}
						}
					}
				}
				n++
				key := fmt.Sprintf("%s#reads:%s.%s", fd.Name(), owner, f.Name())
				if seen[key] {
					return true
				}
				seen[key] = true
				c.Ob("C04-R12", key, se.Pos(), wrapped, fmt.Sprintf("%s%s runs before the members of the document are normalised and reads %s.%s as typed; %s.Normalize rewrites that text afterwards: what is derived from it differs between the first calculation and the second (calculate → serialise → parse → calculate is not a fixpoint for padded or differently spelled input)", fd.Name(), via, owner, f.Name(), owner))
				return true
			})
		}
		walk(fd.Decl.Body, "")
	}
	c.Extra("C04-R12_member_text_reads_in_document_normalisers", n)
	_ = sort.Strings
	_ = token.NoPos
}


// c04CalcWritesNormaliserInputs — C04-R13: the calculation step of package bill
// (everything bill.calculate reaches inside the package) runs after the
// normalisers; it does not write a member of a tax combo that a regime or addon
// combo normaliser reads. A combo is input: what the calculation writes into
// it is what the next pass's normalisers see, so the first result is not what
// a second calculation gives (the customer-rates tag writes the customer's
// country into every combo after the Portuguese normalisers have derived
// pt-region from the country that was there).
func c04CalcWritesNormaliserInputs(c *core.Ctx) {
	p := c.P
	c.Rule("C04-R13", "the bill calculation writes no tax combo member that combo normalisers read", 0)
	saved := p.InlineMode
	p.InlineMode = false
	defer func() { p.InlineMode = saved }()
	calc := p.Func("bill", "", "calculate")
	combo := p.Named("tax", "Combo")
	if calc == nil || combo == nil {
		c.Ob("C04-R13", "UNRESOLVED:bill.calculate", token.NoPos, false, "function or type not found")
		return
	}
	comboField := map[*types.Var]bool{}
	if st, ok := combo.Underlying().(*types.Struct); ok {
		for i := 0; i < st.NumFields(); i++ {
			comboField[st.Field(i)] = true
		}
	}
	// who reads which combo member among the regime / addon normalisers
	normReads := map[*types.Var][]string{}
	for _, fd := range p.AllFuncs() {
		rel := core.RelPkg(fd.Obj.Pkg().Path())
		if (!strings.HasPrefix(rel, "regimes/") && !strings.HasPrefix(rel, "addons/")) || p.IsTestFile(fd.Decl.Pos()) {
			continue
		}
		if !strings.Contains(strings.ToLower(fd.Obj.Name()), "normal") {
			continue
		}
		info := fd.Pkg.TypesInfo
		lhs := map[ast.Expr]bool{}
		ast.Inspect(fd.Decl.Body, func(m ast.Node) bool {
			if as, ok := m.(*ast.AssignStmt); ok {
				for _, l := range as.Lhs {
					lhs[ast.Unparen(l)] = true
				}
			}
			return true
		})
		ast.Inspect(fd.Decl.Body, func(m ast.Node) bool {
			if se, ok := m.(*ast.SelectorExpr); ok && !lhs[se] {
				if f := core.FieldOf(info, se); f != nil && comboField[f] {
					normReads[f] = append(normReads[f], fd.Name())
				}
			}
			return true
		})
	}
	// package bill functions reached from calculate
	seen := map[*types.Func]bool{calc.Obj: true}
	work := []*types.Func{calc.Obj}
	for len(work) > 0 {
		f := work[0]
		work = work[1:]
		for _, g := range p.FuncRefs(f) {
			if g.Pkg() == calc.Obj.Pkg() && !seen[g] && p.DeclOf(g) != nil {
				seen[g] = true
				work = append(work, g)
			}
		}
	}
	var fns []*types.Func
	for f := range seen {
		fns = append(fns, f)
	}
	sort.Slice(fns, func(i, j int) bool { return core.FuncName(fns[i]) < core.FuncName(fns[j]) })
	n := 0
	for _, f := range fns {
		fd := p.DeclOf(f)
		info := fd.Pkg.TypesInfo
		ast.Inspect(fd.Decl.Body, func(m ast.Node) bool {
			as, ok := m.(*ast.AssignStmt)
			if !ok {
				return true
			}
			for _, l := range as.Lhs {
				fl := core.FieldOf(info, ast.Unparen(l))
				if fl == nil || !comboField[fl] {
					continue
				}
				n++
				readers := uniq(normReads[fl])
				c.Ob("C04-R13", fmt.Sprintf("%s#writes:tax.Combo.%s", fd.Name(), fl.Name()), as.Pos(), len(readers) == 0,
					fmt.Sprintf("%s, part of the calculation that follows normalisation, writes tax.Combo.%s, which %d combo normalisers read (%s): the first calculation normalises the combo as typed, the second what the first wrote — calculate → serialise → parse → calculate is not a fixpoint", fd.Name(), fl.Name(), len(readers), strings.Join(readers, ", ")))
			}
			return true
		})
	}
	c.Extra("C04-R13_combo_member_writes_in_bill_calculation", n)
}

// c04OwnCountryBlanked — C04-R14: the calculation blanks a combo's country
// when it equals the document's regime country (tax.Combo.calculate), after
// the normalisers have run. A regime or addon function that takes a combo and
// decides on its country must therefore decide the same for "" and for the
// package's own country: otherwise the first calculation (country as typed)
// and the second (country blanked) normalise the combo differently. Decided
// by evaluating every condition and switch that reads tax.Combo.Country under
// both values, over all truth assignments of the other terms it contains.
func c04OwnCountryBlanked(c *core.Ctx) {
	p := c.P
	c.Rule("C04-R14", "combo normalisers decide the same for an empty country and the regime's own (which the calculation blanks)", 3)
	combo := p.Named("tax", "Combo")
	blank := p.Func("tax", "Combo", "calculate")
	if combo == nil || blank == nil {
		c.Ob("C04-R14", "UNRESOLVED:tax.Combo.calculate", token.NoPos, false, "type or method not found")
		return
	}
	var countryField *types.Var
	if st, ok := combo.Underlying().(*types.Struct); ok {
		for i := 0; i < st.NumFields(); i++ {
			if st.Field(i).Name() == "Country" {
				countryField = st.Field(i)
			}
		}
	}
	// the premise: the calculation writes "" into the member
	writes := false
	ast.Inspect(blank.Decl.Body, func(m ast.Node) bool {
		if as, ok := m.(*ast.AssignStmt); ok && len(as.Lhs) == 1 && len(as.Rhs) == 1 {
			if core.FieldOf(blank.Pkg.TypesInfo, as.Lhs[0]) == countryField && countryField != nil {
				if tv, ok := blank.Pkg.TypesInfo.Types[as.Rhs[0]]; ok && tv.Value != nil && tv.Value.ExactString() == `""` {
					writes = true
				}
			}
		}
		return true
	})
	if !writes {
		c.Ob("C04-R14", "tax.(*Combo).calculate#blanks-own-country", blank.Decl.Pos(), true, "")
		return // nothing blanks the country: nothing to agree with
	}
	regimes := map[string]bool{}
	for _, pk := range p.Pkgs {
		rel := core.RelPkg(pk.PkgPath)
		if strings.HasPrefix(rel, "regimes/") && strings.Count(rel, "/") == 1 {
			regimes[strings.ToUpper(strings.TrimPrefix(rel, "regimes/"))] = true
		}
	}
	folder := &core.Folder{P: p}
	n := 0
	for _, fd := range p.AllFuncs() {
		if p.IsTestFile(fd.Decl.Pos()) || fd.Decl.Body == nil {
			continue
		}
		rel := core.RelPkg(fd.Obj.Pkg().Path())
		seg := strings.Split(rel, "/")
		if len(seg) < 2 || (seg[0] != "regimes" && seg[0] != "addons") {
			continue
		}
		own := strings.ToUpper(seg[1])
		if !regimes[own] {
			continue
		}
		if strings.Contains(strings.ToLower(fd.Obj.Name()), "valid") {
			continue // validation runs on the calculated document: the country is blanked by then
		}
		info := fd.Pkg.TypesInfo
		ld := core.NewLocalDefs(info, fd.Decl.Body)
		isCountry := func(e ast.Expr) bool {
			e = ast.Unparen(ld.Resolve(ast.Unparen(e), 3))
			// tc.Country.Code() / .String() / a conversion: the same text
			for i := 0; i < 3; i++ {
				call, ok := e.(*ast.CallExpr)
				if !ok {
					break
				}
				if tv, isT := info.Types[call.Fun]; isT && tv.IsType() && len(call.Args) == 1 {
					e = ast.Unparen(ld.Resolve(ast.Unparen(call.Args[0]), 3))
					continue
				}
				se, isSel := ast.Unparen(call.Fun).(*ast.SelectorExpr)
				if !isSel || len(call.Args) != 0 || (se.Sel.Name != "Code" && se.Sel.Name != "String" && se.Sel.Name != "Tax") {
					break
				}
				e = ast.Unparen(ld.Resolve(ast.Unparen(se.X), 3))
			}
			return core.FieldOf(info, e) == countryField
		}
		mentions := func(e ast.Node) bool {
			found := false
			ast.Inspect(e, func(m ast.Node) bool {
				if x, ok := m.(ast.Expr); ok && isCountry(x) {
					found = true
				}
				return !found
			})
			return found
		}
		constOf := func(e ast.Expr) (string, bool) {
			if tv, ok := info.Types[e]; ok && tv.Value != nil {
				if s, ok := folder.Fold(fd.Pkg, e).(string); ok {
					return s, true
				}
			}
			if s, ok := folder.Fold(fd.Pkg, e).(string); ok {
				return s, true
			}
			// l10n.PT.Tax(): the code itself
			if cl, ok := ast.Unparen(e).(*ast.CallExpr); ok && len(cl.Args) == 0 {
				if se, ok := ast.Unparen(cl.Fun).(*ast.SelectorExpr); ok && (se.Sel.Name == "Tax" || se.Sel.Name == "Code" || se.Sel.Name == "String") {
					if s, ok := folder.Fold(fd.Pkg, se.X).(string); ok {
						return s, true
					}
				}
			}
			return "", false
		}
		// eval: 1 true, 0 false, -1 cannot be evaluated
		var eval func(e ast.Expr, val string, asg map[string]bool, atoms *[]string) int
		eval = func(e ast.Expr, val string, asg map[string]bool, atoms *[]string) int {
			e = ast.Unparen(e)
			if !mentions(e) {
				k := types.ExprString(e)
				if _, ok := asg[k]; !ok {
					if atoms != nil {
						*atoms = append(*atoms, k)
					}
					return 0
				}
				if asg[k] {
					return 1
				}
				return 0
			}
			switch x := e.(type) {
			case *ast.UnaryExpr:
				if x.Op == token.NOT {
					if v := eval(x.X, val, asg, atoms); v >= 0 {
						return 1 - v
					}
				}
				return -1
			case *ast.BinaryExpr:
				switch x.Op {
				case token.LAND, token.LOR:
					l, r := eval(x.X, val, asg, atoms), eval(x.Y, val, asg, atoms)
					if l < 0 || r < 0 {
						return -1
					}
					if x.Op == token.LAND {
						return l & r
					}
					return l | r
				case token.EQL, token.NEQ:
					l, r := x.X, x.Y
					if !isCountry(l) {
						l, r = r, l
					}
					if !isCountry(l) {
						return -1
					}
					s, ok := constOf(r)
					if !ok {
						return -1
					}
					if (s == val) == (x.Op == token.EQL) {
						return 1
					}
					return 0
				}
				return -1
			case *ast.CallExpr:
				se, ok := ast.Unparen(x.Fun).(*ast.SelectorExpr)
				if !ok || !isCountry(se.X) {
					return -1
				}
				switch se.Sel.Name {
				case "Empty", "IsEmpty":
					if val == "" {
						return 1
					}
					return 0
				case "In":
					for _, a := range x.Args {
						s, ok := constOf(a)
						if !ok {
							return -1
						}
						if s == val {
							return 1
						}
					}
					return 0
				}
				return -1
			case *ast.Ident:
				// a boolean local defined from the country
				if d := ld.Resolve(x, 3); d != ast.Expr(x) {
					return eval(d, val, asg, atoms)
				}
			}
			return -1
		}
		judge := func(cond ast.Expr, at token.Pos, what string) {
			n++
			key := fmt.Sprintf("%s#country-decision:%s", fd.Name(), what)
			var atoms []string
			if eval(cond, "", map[string]bool{}, &atoms) < 0 {
				c.Undecided("C04-R14", key, at, "a condition on the combo's country that cannot be evaluated for the empty and the own country")
				return
			}
			atoms = uniq(atoms)
			if len(atoms) > 8 {
				c.Undecided("C04-R14", key, at, "too many independent terms in a condition on the combo's country")
				return
			}
			ok := true
			for m := 0; m < 1<<len(atoms); m++ {
				asg := map[string]bool{}
				for i, a := range atoms {
					asg[a] = m&(1<<i) != 0
				}
				if eval(cond, "", asg, nil) != eval(cond, own, asg, nil) {
					ok = false
				}
			}
			c.Ob("C04-R14", key, at, ok, fmt.Sprintf("%s decides differently for a combo whose country is %q and one without a country; the calculation that follows blanks the country when it is the regime's own, so the second calculation of the same document takes the other branch: calculate → serialise → parse → calculate is not a fixpoint", fd.Name(), own))
		}
		idx := 0
		ast.Inspect(fd.Decl.Body, func(m ast.Node) bool {
			switch x := m.(type) {
			case *ast.IfStmt:
				if mentions(x.Cond) {
					idx++
					judge(x.Cond, x.Cond.Pos(), fmt.Sprintf("if%d", idx))
				}
			case *ast.SwitchStmt:
				if x.Tag != nil && isCountry(x.Tag) {
					idx++
					n++
					key := fmt.Sprintf("%s#country-decision:switch%d", fd.Name(), idx)
					clauseOf := func(val string) int {
						def := -1
						for i, s := range x.Body.List {
							cc := s.(*ast.CaseClause)
							if cc.List == nil {
								def = i
							}
							for _, e := range cc.List {
								if s, ok := constOf(e); ok && s == val {
									return i
								}
							}
						}
						return def
					}
					c.Ob("C04-R14", key, x.Pos(), clauseOf("") == clauseOf(own), fmt.Sprintf("%s switches on the combo's country and handles %q and the empty country in different clauses; the calculation that follows blanks the country when it is the regime's own: the second calculation of the same document takes the other clause", fd.Name(), own))
				} else if x.Tag == nil {
					for _, s := range x.Body.List {
						for _, e := range s.(*ast.CaseClause).List {
							if mentions(e) {
								idx++
								judge(e, e.Pos(), fmt.Sprintf("case%d", idx))
							}
						}
					}
				}
			}
			return true
		})
	}
	c.Ob("C04-R14", "country-decisions#found", token.NoPos, n >= 3, fmt.Sprintf("only %d decisions on a combo's country were found in regime and addon packages (3 confirmed by hand: regimes/pt, addons/pt/saft, addons/es/verifactu)", n))
}

// c04RequiresDepth — C04-R15: the list of addons of a document is expanded
// with the addons each one requires when the normalisers are collected
// (tax.Addons.normalizeAddons). The expansion as written adds the direct
// requirements of the keys that are in the list: a requirement of a
// requirement only arrives on the next calculation, when the first one's
// output is the input — and with it that addon's normalisers, scenarios and
// validators. So either the expansion is transitive (the function recurses, or
// repeats its pass in an enclosing loop), or no required addon of any addon
// definition has requirements of its own.
func c04RequiresDepth(c *core.Ctx) {
	p := c.P
	c.Rule("C04-R15", "addon requirements are one level deep unless their expansion is transitive", 3)
	fd := p.Func("tax", "Addons", "normalizeAddons")
	if fd == nil {
		c.Ob("C04-R15", "UNRESOLVED:tax.Addons.normalizeAddons", token.NoPos, false, "method not found")
		return
	}
	// transitive? recursion through the package, or the read of Requires sits inside two loops
	transitive := false
	seen := map[*types.Func]bool{}
	var reach func(f *types.Func, depth int)
	reach = func(f *types.Func, depth int) {
		if depth > 4 || seen[f] {
			return
		}
		seen[f] = true
		for _, g := range p.FuncRefs(f) {
			if g == fd.Obj {
				transitive = true
			}
			if g.Pkg() == fd.Obj.Pkg() && p.DeclOf(g) != nil {
				if g2 := p.DeclOf(g); g2 != nil {
					for _, h := range p.FuncRefs(g) {
						if h == g {
							transitive = true // a recursive helper does the expansion
						}
					}
				}
				reach(g, depth+1)
			}
		}
	}
	reach(fd.Obj, 0)
	var loops int
	var walk func(n ast.Node, depth int)
	walk = func(n ast.Node, depth int) {
		ast.Inspect(n, func(m ast.Node) bool {
			if m == nil || m == n {
				return true
			}
			switch x := m.(type) {
			case *ast.ForStmt:
				walk(x.Body, depth+1)
				return false
			case *ast.RangeStmt:
				walk(x.Body, depth+1)
				return false
			case *ast.SelectorExpr:
				if x.Sel.Name == "Requires" && depth > loops {
					loops = depth
				}
			}
			return true
		})
	}
	walk(fd.Decl.Body, 0)
	if loops >= 2 {
		transitive = true
	}
	// the requirement graph of the addon definition literals
	folder := &core.Folder{P: p}
	requires := map[string][]string{}
	where := map[string]token.Pos{}
	for _, pk := range p.Pkgs {
		rel := core.RelPkg(pk.PkgPath)
		if !strings.HasPrefix(rel, "addons/") {
			continue
		}
		for _, file := range pk.Syntax {
			if p.IsTestFile(file.Pos()) {
				continue
			}
			ast.Inspect(file, func(n ast.Node) bool {
				cl, ok := n.(*ast.CompositeLit)
				if !ok || !litTypeIs(pk.TypesInfo, cl, "tax.AddonDef") {
					return true
				}
				key := ""
				var reqs []string
				decided := true
				for _, el := range cl.Elts {
					kv, ok := el.(*ast.KeyValueExpr)
					if !ok {
						continue
					}
					id, _ := kv.Key.(*ast.Ident)
					if id == nil {
						continue
					}
					switch id.Name {
					case "Key":
						if s, ok := folder.Fold(pk, kv.Value).(string); ok {
							key = s
						}
					case "Requires":
						list, ok := folder.Fold(pk, kv.Value).([]any)
						if !ok {
							decided = false
							continue
						}
						for _, e := range list {
							if s, ok := e.(string); ok {
								reqs = append(reqs, s)
							} else {
								decided = false
							}
						}
					}
				}
				if key == "" {
					return false
				}
				if !decided {
					c.Undecided("C04-R15", "addon:"+key+"#requires", cl.Pos(), "the requirements of this addon definition are not a literal list of constant keys")
					return false
				}
				requires[key] = reqs
				where[key] = cl.Pos()
				return false
			})
		}
	}
	var keys []string
	for k := range requires {
		keys = append(keys, k)
	}
	sort.Strings(keys)
	nReq := 0
	for _, k := range keys {
		if len(requires[k]) == 0 {
			continue
		}
		nReq++
		var deep []string
		for _, r := range requires[k] {
			for _, rr := range requires[r] {
				has := false
				for _, r2 := range requires[k] {
					if r2 == rr {
						has = true
					}
				}
				if !has {
					deep = append(deep, r+" → "+rr)
				}
			}
		}
		c.Ob("C04-R15", "addon:"+k+"#requires", where[k], transitive || len(deep) == 0,
			fmt.Sprintf("addon %s requires %v, which has requirements of its own that %s does not list (%s); %s adds direct requirements only, so they join the document's list — with their normalisers, scenarios and validators — on the second calculation: calculate → serialise → parse → calculate is not a fixpoint", k, requires[k], k, strings.Join(deep, ", "), fd.Name()))
	}
	c.Ob("C04-R15", "addons#with-requirements", token.NoPos, nReq >= 3 && len(keys) >= 10, fmt.Sprintf("only %d addon definitions (%d with requirements) were found", len(keys), nReq))
}
