package props

import (
	"fmt"
	"go/ast"
	"go/token"
	"go/types"
	"sort"
	"strings"

	"goblcheck/core"
)

func init() { register("C16", C16) }

// C16 — correct/replicate yield a linked new document and leave the source intact.
func C16(c *core.Ctx) {
	c.Explain("Decided: (R1) Envelope.Correct and Envelope.Replicate store nothing through the source envelope, call nothing on its document but Clone, apply Correct/Replicate to the clone, and return a brand-new envelope built by Envelop (new header with a fresh identifier and no stamps, empty signature list); Object.Clone returns an object filled only by unmarshalling the marshalled source; (R2) Invoice.Correct builds the preceding reference from the invoice's identifier, type, series, code and issue date before any of them is re-assigned, adds reason and extensions from the options, replaces the preceding list by exactly that reference, clears code and identifier, takes the requested type, and ends by recalculating; (R3) success of Correct is dominated by the requirement check, which reads each requirement of the correction definition (stamps, allowed types, reason) on a path to an error; (R4) every Replicable document clears identifier and code and takes today's date, and Object.Replicate assigns a new identifier when empty; (R5) no pointer into the source header travels into the correction options or the new document without being copied. Not decided: the contents of each regime's requirement tables, option plumbing values of the CLI.")
	c.Rule("C16-R1", "source envelope untouched; new envelope from a clone", 8)
	c.Rule("C16-R2", "preceding reference read before fields are cleared; list replaced; code/uuid cleared", 9)
	c.Rule("C16-R3", "requirement checks dominate success and read every requirement", 4)
	c.Rule("C16-R4", "replication clears uuid/code and sets today's date", 4)
	c.Rule("C16-R5", "no source header pointers shared into options or result", 1)
	c16Envelope(c)
	c16InvoiceCorrect(c)
	c16Requirements(c)
	c16Replicate(c)
	c16Sharing(c)
	c16CLI(c)
	c16HeaderOptionLast(c)
	c16Flags(c)
	c16MapsKeptWhole(c)
	deadRulesAfterSkip(c, "C16-R8", "no validation rule is written after an unconditional validation.Skip (the correction requirements of regimes and addons included)")
}

// c16CLI: the command-line / bulk wrappers hand back the envelope that
// Envelope.Correct / Replicate produced, validated, never the parsed source.
func c16CLI(c *core.Ctx) {
	p := c.P
	c.Rule("C16-R6", "CLI/bulk correct and replicate return the new envelope, validated", 2)
	for _, name := range []string{"correct", "replicate"} {
		fd := p.Func("internal/cli", "", name)
		if fd == nil {
			c.Ob("C16-R6", "UNRESOLVED:cli."+name, token.NoPos, false, "function not found")
			continue
		}
		info := fd.Pkg.TypesInfo
		ff := core.NewFuncFlow(fd)
		method := strings.ToUpper(name[:1]) + name[1:]
		calls := core.CallsTo(info, fd.Decl.Body, func(f *types.Func) bool {
			return f.Name() == method && core.RecvNamed(f) != nil && core.RecvNamed(f).Obj().Name() == "Envelope"
		})
		if len(calls) != 1 {
			c.Ob("C16-R6", fd.Name()+"#envelope-path", fd.Decl.Pos(), false, fmt.Sprintf("expected one call of Envelope.%s, found %d", method, len(calls)))
			continue
		}
		call := calls[0]
		src := core.VarOf(info, core.RecvExpr(call))
		var res *types.Var
		ast.Inspect(fd.Decl.Body, func(n ast.Node) bool {
			if as, ok := n.(*ast.AssignStmt); ok && len(as.Rhs) == 1 && ast.Unparen(as.Rhs[0]) == ast.Expr(call) {
				res = core.VarOf(info, as.Lhs[0])
			}
			return true
		})
		// every success return reachable after the call returns res, validated without error
		ok, n := res != nil, 0
		why := "the result of the envelope operation is not kept"
		for _, r := range ff.Flow.Returns() {
			if !ff.Flow.Reachable(r) || len(r.Results) != 2 || !ff.Flow.PassedAt(r)[call] {
				continue
			}
			if k, _ := ff.ClassifyReturn(p, r); k != core.RetSuccess {
				continue
			}
			n++
			rv := core.VarOf(info, r.Results[0])
			if rv != res || rv == src {
				ok, why = false, "a success return after the envelope operation returns something other than the new envelope (e.g. the parsed source)"
			}
			validated := false
			for pc := range ff.Flow.PassedAt(r) {
				if f := core.Callee(info, pc); f != nil && f.Name() == "Validate" && core.VarOf(info, core.RecvExpr(pc)) == res && ff.ErrNilAt(r, pc) == 1 {
					validated = true
				}
			}
			if !validated {
				ok, why = false, "the new envelope is returned without having been validated error-free"
			}
			if ff.ErrNilAt(r, call) != 1 {
				ok, why = false, "the error of the envelope operation is not heeded"
			}
		}
		c.Ob("C16-R6", fd.Name()+"#returns-new-validated-envelope", call.Pos(), ok && n > 0, why)
	}
}

var (
	c16fe     *fieldEffects
	c16feProg *core.Program
)

func c16Envelope(c *core.Ctx) {
	p := c.P
	for _, name := range []string{"Correct", "Replicate"} {
		fd := p.Func("", "Envelope", name)
		if fd == nil {
			c.Ob("C16-R1", "UNRESOLVED:Envelope."+name, token.NoPos, false, "method not found")
			continue
		}
		info := fd.Pkg.TypesInfo
		recv := recvVar(fd)
		// no store through the receiver
		stores := 0
		ast.Inspect(fd.Decl.Body, func(n ast.Node) bool {
			if as, ok := n.(*ast.AssignStmt); ok {
				for _, l := range as.Lhs {
					if _, isID := ast.Unparen(l).(*ast.Ident); !isID && core.RootVar(info, l) == recv {
						stores++
					}
				}
			}
			return true
		})
		c.Ob("C16-R1", fd.Name()+"#no-store-through-source", fd.Decl.Pos(), stores == 0, "the operation stores into the source envelope")
		// calls on the receiver's members: only Document.Clone (and reads)
		var clone *ast.CallExpr
		bad := ""
		ast.Inspect(fd.Decl.Body, func(n ast.Node) bool {
			call, ok := n.(*ast.CallExpr)
			if !ok {
				return true
			}
			r := core.RecvExpr(call)
			if r == nil || core.RootVar(info, r) != recv {
				return true
			}
			fn := core.Callee(info, call)
			if fn == nil {
				return true
			}
			if _, path := core.FieldPath(info, r); path == "Document" {
				if fn.Name() == "Clone" {
					clone = call
				} else {
					bad = "calls " + fn.Name() + " on the source document"
				}
			}
			return true
		})
		c.Ob("C16-R1", fd.Name()+"#only-clone-on-source-document", fd.Decl.Pos(), clone != nil && bad == "", "the source document is used for something other than Clone: "+bad)
		// no method of the source envelope (or of its members) that writes fields
		if c16fe == nil || c16feProg != p {
			c16fe, c16feProg = newFieldEffects(p), p
		}
		mut := ""
		var mutPos token.Pos
		ast.Inspect(fd.Decl.Body, func(n ast.Node) bool {
			call, ok := n.(*ast.CallExpr)
			if !ok {
				return true
			}
			r := core.RecvExpr(call)
			if r == nil || core.RootVar(info, r) != recv {
				return true
			}
			fn := core.Callee(info, call)
			if fn == nil || call == clone || !core.InModule(fn.Pkg()) {
				return true
			}
			if w := c16fe.writes[fn]; len(w) > 0 && mut == "" {
				var names []string
				for f := range w {
					names = append(names, f.Name())
				}
				sort.Strings(names)
				if len(names) > 4 {
					names = append(names[:4], "...")
				}
				mut, mutPos = fmt.Sprintf("%s, which writes %v", core.FuncName(fn), names), call.Pos()
			}
			return true
		})
		if !mutPos.IsValid() {
			mutPos = fd.Decl.Pos()
		}
		c.Ob("C16-R1", fd.Name()+"#no-mutating-call-on-source", mutPos, mut == "", "the operation calls a field-writing method on the source envelope: "+mut+" — the source (and its digest, hence its signatures) can change")
		if clone == nil {
			continue
		}
		// the document operation is applied to the clone, and the result wraps the clone
		var cloneVar *types.Var
		ast.Inspect(fd.Decl.Body, func(n ast.Node) bool {
			if as, ok := n.(*ast.AssignStmt); ok && len(as.Rhs) == 1 && ast.Unparen(as.Rhs[0]) == ast.Expr(clone) {
				cloneVar = core.VarOf(info, as.Lhs[0])
			}
			return true
		})
		opOnClone := false
		for _, call := range core.CallsTo(info, fd.Decl.Body, func(f *types.Func) bool {
			return f.Name() == name && core.RecvNamed(f) != nil && core.RecvNamed(f).Obj().Name() == "Object"
		}) {
			if core.VarOf(info, core.RecvExpr(call)) == cloneVar && cloneVar != nil {
				opOnClone = true
			}
		}
		c.Ob("C16-R1", fd.Name()+"#operates-on-clone", fd.Decl.Pos(), opOnClone, "the document operation is not applied to the clone of the source document")
		ff := core.NewFuncFlow(fd)
		okRet, nRet := true, 0
		for _, r := range ff.Flow.Returns() {
			if len(r.Results) != 1 && len(r.Results) != 2 {
				continue
			}
			if len(r.Results) == 2 && core.IsNil(info, r.Results[0]) {
				continue
			}
			nRet++
			call, ok := ast.Unparen(r.Results[0]).(*ast.CallExpr)
			if !ok {
				okRet = false
				continue
			}
			fn := core.Callee(info, call)
			if fn == nil || fn.Name() != "Envelop" || len(call.Args) != 1 || core.VarOf(info, call.Args[0]) != cloneVar {
				okRet = false
			}
		}
		c.Ob("C16-R1", fd.Name()+"#returns-new-envelope", fd.Decl.Pos(), okRet && nRet > 0, "the result is not a new envelope built by Envelop(clone)")
	}
	// Envelop / NewEnvelope: fresh header, empty signatures
	if fd := p.Func("", "", "NewEnvelope"); fd != nil {
		info := fd.Pkg.TypesInfo
		hdr, sigs := false, false
		for _, fs := range fieldStores(info, fd.Decl.Body) {
			f := fs.field
			if call, ok := ast.Unparen(fs.value).(*ast.CallExpr); ok {
				fn := core.Callee(info, call)
				if f.Name() == "Head" && fn != nil && fn.Name() == "NewHeader" {
					hdr = true
				}
				if id, isID := call.Fun.(*ast.Ident); f.Name() == "Signatures" && isID && id.Name == "make" && len(call.Args) > 1 {
					if tv, ok := info.Types[call.Args[1]]; ok && tv.Value != nil && tv.Value.String() == "0" {
						sigs = true
					}
				}
			}
		}
		c.Ob("C16-R1", fd.Name()+"#fresh-header-no-signatures", fd.Decl.Pos(), hdr && sigs, "a new envelope does not get a new header and an empty signature list")
	} else {
		c.Ob("C16-R1", "UNRESOLVED:NewEnvelope", token.NoPos, false, "function not found")
	}
	if fd := p.Func("head", "", "NewHeader"); fd != nil {
		info := fd.Pkg.TypesInfo
		uuidNew, stampsSet := false, false
		for _, fs := range fieldStores(info, fd.Decl.Body) {
			if fs.field.Name() == "UUID" {
				if call, ok := ast.Unparen(fs.value).(*ast.CallExpr); ok {
					if fn := core.Callee(info, call); fn != nil && fn.Pkg() != nil && fn.Pkg().Path() == core.ModPath+"/uuid" && strings.HasPrefix(fn.Name(), "V") {
						uuidNew = true
					}
				}
			}
			if fs.field.Name() == "Stamps" {
				stampsSet = true
			}
		}
		c.Ob("C16-R1", fd.Name()+"#new-uuid-no-stamps", fd.Decl.Pos(), uuidNew && !stampsSet, "a new header does not get a freshly generated identifier, or carries stamps")
	} else {
		c.Ob("C16-R1", "UNRESOLVED:head.NewHeader", token.NoPos, false, "function not found")
	}
	// Clone
	if fd := p.Func("schema", "Object", "Clone"); fd != nil {
		info := fd.Pkg.TypesInfo
		recv := recvVar(fd)
		ld := core.NewLocalDefs(info, fd.Decl.Body)
		ok := false
		// the object handed back: a pointer variable holding a new allocation, or the
		// address of a local declared empty (`var d2 Object` … `return &d2`)
		var resVar *types.Var
		byValue := false
		baseOf := func(e ast.Expr) (*types.Var, bool) {
			e = ast.Unparen(e)
			if u, ok := e.(*ast.UnaryExpr); ok && u.Op == token.AND {
				return core.VarOf(info, u.X), true
			}
			return core.VarOf(info, e), false
		}
		for _, r := range core.NewFuncFlow(fd).Flow.Returns() {
			if len(r.Results) == 2 && !core.IsNil(info, r.Results[0]) {
				resVar, byValue = baseOf(r.Results[0])
			}
		}
		if resVar != nil {
			fresh := false
			defs := ld.All(resVar)
			switch {
			case !byValue:
				if d, has := ld.Before(resVar, fd.Decl.Body.End()); has && d.RHS != nil && isAlloc(info, d.RHS) && len(defs) == 1 {
					fresh = true
				}
			case len(defs) == 1 && defs[0].RHS == nil:
				fresh = true // var d2 T
			case len(defs) == 1:
				if cl, ok := ast.Unparen(defs[0].RHS).(*ast.CompositeLit); ok && len(cl.Elts) == 0 {
					fresh = true // d2 := T{}
				}
			}
			um := core.CallsTo(info, fd.Decl.Body, func(f *types.Func) bool { return core.IsFunc(f, "encoding/json", "", "Unmarshal") })
			ma := core.CallsTo(info, fd.Decl.Body, func(f *types.Func) bool { return core.IsFunc(f, "encoding/json", "", "Marshal") })
			target := func(e ast.Expr) bool {
				v, addr := baseOf(e)
				return v == resVar && addr == byValue
			}
			// after it has been filled the copy is only handed back: nothing is called on it or stored
			// into it (a copy with a new identifier is not a copy; Correct links to the copy's identifier)
			touched := ""
			if len(um) == 1 {
				ast.Inspect(fd.Decl.Body, func(m ast.Node) bool {
					id, ok := m.(*ast.Ident)
					if !ok || info.Uses[id] != types.Object(resVar) || id.Pos() < um[0].End() || touched != "" {
						return true
					}
					inReturn := false
					ast.Inspect(fd.Decl.Body, func(k ast.Node) bool {
						if r, ok := k.(*ast.ReturnStmt); ok && r.Pos() <= id.Pos() && id.End() <= r.End() && len(r.Results) == 2 {
							if v, _ := baseOf(r.Results[0]); v == resVar {
								inReturn = true
							}
						}
						return true
					})
					if !inReturn {
						touched = p.Rel(id.Pos())
					}
					return true
				})
			}
			c.Ob("C16-R1", fd.Name()+"#copy-untouched", fd.Decl.Pos(), touched == "",
				"the copy is modified after it has been filled from the source (at "+touched+"): it is no longer the same document — a correction made through the envelope refers to the copy's identifier, not the source's")
			if fresh && len(um) == 1 && len(ma) == 1 && target(um[0].Args[1]) && core.VarOf(info, ma[0].Args[0]) == recv {
				if dv := core.VarOf(info, um[0].Args[0]); dv != nil {
					if d, has := ld.Before(dv, um[0].Pos()); has && ast.Unparen(d.RHS) == ast.Expr(ma[0]) {
						ok = true
					}
				}
			}
		}
		c.Ob("C16-R1", fd.Name()+"#deep-copy", fd.Decl.Pos(), ok, "Clone does not return a new object filled only by json.Unmarshal(json.Marshal(source))")
	} else {
		c.Ob("C16-R1", "UNRESOLVED:schema.Object.Clone", token.NoPos, false, "method not found")
	}
}

func c16InvoiceCorrect(c *core.Ctx) {
	p := c.P
	fd := p.Func("bill", "Invoice", "Correct")
	if fd == nil {
		c.Ob("C16-R2", "UNRESOLVED:bill.Invoice.Correct", token.NoPos, false, "method not found")
		return
	}
	info := fd.Pkg.TypesInfo
	recv := recvVar(fd)
	// the DocumentRef literal
	var lit *ast.CompositeLit
	ast.Inspect(fd.Decl.Body, func(n ast.Node) bool {
		if cl, ok := n.(*ast.CompositeLit); ok && litTypeIs(info, cl, "org.DocumentRef") && lit == nil {
			lit = cl
		}
		return true
	})
	if lit == nil {
		c.Ob("C16-R2", fd.Name()+"#preceding-literal", fd.Decl.Pos(), false, "NOT FOUND: no org.DocumentRef literal built")
		return
	}
	var preVar *types.Var
	ast.Inspect(fd.Decl.Body, func(n ast.Node) bool {
		if as, ok := n.(*ast.AssignStmt); ok && len(as.Rhs) == 1 {
			r := ast.Unparen(as.Rhs[0])
			if u, isU := r.(*ast.UnaryExpr); isU {
				r = ast.Unparen(u.X)
			}
			if r == ast.Expr(lit) {
				preVar = core.VarOf(info, as.Lhs[0])
			}
		}
		return true
	})
	// which invoice fields feed the literal
	fromInv := map[string]string{} // ref field -> invoice field
	fromOpt := map[string]bool{}
	for _, el := range lit.Elts {
		kv, ok := el.(*ast.KeyValueExpr)
		if !ok {
			continue
		}
		k := kv.Key.(*ast.Ident).Name
		ast.Inspect(kv.Value, func(n ast.Node) bool {
			if se, ok := n.(*ast.SelectorExpr); ok {
				if f := core.FieldOf(info, se); f != nil {
					if core.RootVar(info, se) == recv {
						fromInv[k] = f.Name()
					} else if core.RootVar(info, se) != nil {
						fromOpt[k] = true
					}
				}
			}
			return true
		})
	}
	for ref, want := range map[string]string{"Identify": "UUID", "Type": "Type", "Series": "Series", "Code": "Code", "IssueDate": "IssueDate"} {
		c.Ob("C16-R2", fd.Name()+"#preceding."+ref, lit.Pos(), fromInv[ref] == want,
			fmt.Sprintf("the preceding reference's %s is not taken from the invoice's %s", ref, want))
		// read before re-assignment
		early := ""
		ast.Inspect(fd.Decl.Body, func(n ast.Node) bool {
			if as, ok := n.(*ast.AssignStmt); ok && as.Pos() < lit.Pos() {
				for _, l := range as.Lhs {
					if core.IsFieldOfVar(info, l, recv, want) {
						early = p.Rel(as.Pos())
					}
				}
			}
			return true
		})
		c.Ob("C16-R2", fd.Name()+"#read-before-clear:"+want, lit.Pos(), early == "",
			fmt.Sprintf("the invoice's %s is re-assigned at %s before it is copied into the preceding reference", want, early))
	}
	for _, ref := range []string{"Reason", "Ext"} {
		c.Ob("C16-R2", fd.Name()+"#preceding."+ref, lit.Pos(), fromOpt[ref], "the preceding reference's "+ref+" is not taken from the correction options")
	}
	// inv.Preceding = []*org.DocumentRef{pre}
	okList := false
	ast.Inspect(fd.Decl.Body, func(n ast.Node) bool {
		as, ok := n.(*ast.AssignStmt)
		if !ok || len(as.Lhs) != 1 || !core.IsFieldOfVar(info, as.Lhs[0], recv, "Preceding") {
			return true
		}
		if cl, ok := ast.Unparen(as.Rhs[0]).(*ast.CompositeLit); ok && len(cl.Elts) >= 1 && core.VarOf(info, cl.Elts[0]) == preVar && preVar != nil {
			okList = true
		} else {
			okList = false
		}
		return true
	})
	c.Ob("C16-R2", fd.Name()+"#preceding-first", fd.Decl.Pos(), okList, "the invoice's preceding list is not replaced by a list whose first entry is the new reference (an appended reference leaves an older one first)")
	// cleared fields and requested type
	cleared := map[string]bool{}
	typeFromOpt := false
	ast.Inspect(fd.Decl.Body, func(n ast.Node) bool {
		as, ok := n.(*ast.AssignStmt)
		if !ok || len(as.Lhs) != 1 || len(as.Rhs) != 1 || as.Pos() < lit.End() {
			return true
		}
		for _, fname := range []string{"Code", "UUID"} {
			if core.IsFieldOfVar(info, as.Lhs[0], recv, fname) {
				if s, ok := foldString(info, as.Rhs[0]); ok && s == "" {
					cleared[fname] = true
				} else if se, ok := ast.Unparen(as.Rhs[0]).(*ast.SelectorExpr); ok && se.Sel.Name == "Empty" {
					cleared[fname] = true
				}
			}
		}
		if core.IsFieldOfVar(info, as.Lhs[0], recv, "Type") {
			if f := core.FieldOf(info, as.Rhs[0]); f != nil && f.Name() == "Type" && core.RootVar(info, as.Rhs[0]) != recv {
				typeFromOpt = true
			}
		}
		return true
	})
	c.Ob("C16-R2", fd.Name()+"#clears-code-and-uuid", fd.Decl.Pos(), cleared["Code"] && cleared["UUID"], "the corrective invoice keeps the source's code or identifier")
	c.Ob("C16-R2", fd.Name()+"#requested-type", fd.Decl.Pos(), typeFromOpt, "the corrective invoice's type is not the one requested in the options")
	// ends by recalculating
	last := fd.Decl.Body.List[len(fd.Decl.Body.List)-1]
	okCalc := false
	if r, ok := last.(*ast.ReturnStmt); ok && len(r.Results) == 1 {
		if call, ok := ast.Unparen(r.Results[0]).(*ast.CallExpr); ok {
			if fn := core.Callee(info, call); fn != nil && fn.Name() == "Calculate" && core.VarOf(info, core.RecvExpr(call)) == recv {
				okCalc = true
			}
		}
	}
	c.Ob("C16-R2", fd.Name()+"#recalculated", last.Pos(), okCalc, "Correct does not end by recalculating the corrective invoice")
}

func c16Requirements(c *core.Ctx) {
	p := c.P
	fd := p.Func("bill", "Invoice", "Correct")
	if fd == nil {
		return
	}
	info := fd.Pkg.TypesInfo
	ff := core.NewFuncFlow(fd)
	calls := core.CallsTo(info, fd.Decl.Body, func(f *types.Func) bool { return f.Name() == "validatePrecedingData" })
	if len(calls) != 1 {
		c.Ob("C16-R3", fd.Name()+"#requirement-check", fd.Decl.Pos(), false, fmt.Sprintf("expected one call of the requirement check, found %d", len(calls)))
		return
	}
	h := ff.Heeds(p, calls[0], nil)
	why := h.Why
	if h.OK {
		why = mustPassBeforeSuccess(p, ff, calls[0])
	}
	c.Ob("C16-R3", fd.Name()+"#requirement-check-dominates-success", calls[0].Pos(), h.OK && why == "", "success of Correct is not dominated by a heeded requirement check: "+why)
	// the definition handed in is the merged definition of regime and addons
	if cdv := core.VarOf(info, calls[0].Args[1]); cdv != nil {
		ld := core.NewLocalDefs(info, fd.Decl.Body)
		ok := false
		if d, has := ld.Before(cdv, calls[0].Pos()); has && d.RHS != nil {
			if cl, isC := ast.Unparen(d.RHS).(*ast.CallExpr); isC {
				if fn := core.Callee(info, cl); fn != nil && fn.Name() == "correctionDef" {
					ok = true
				}
			}
		}
		c.Ob("C16-R3", fd.Name()+"#definition-from-regime-and-addons", calls[0].Pos(), ok, "the requirements are not taken from the merged correction definition of regime and addons")
	}
	vfd := p.DeclOf(core.Callee(info, calls[0]))
	if vfd == nil {
		return
	}
	vinfo := vfd.Pkg.TypesInfo
	var cdParam *types.Var
	sig := vfd.Obj.Type().(*types.Signature)
	for i := 0; i < sig.Params().Len(); i++ {
		if core.TypeString(sig.Params().At(i).Type()) == "*tax.CorrectionDefinition" {
			cdParam = sig.Params().At(i)
		}
	}
	vff := core.NewFuncFlow(vfd)
	for _, fname := range []string{"Stamps", "Types", "ReasonRequired"} {
		// some failure return lies where a condition mentioning cd.<field> (or a loop over it) holds
		ok := false
		ast.Inspect(vfd.Decl.Body, func(n ast.Node) bool {
			var scope ast.Node
			var head ast.Expr
			switch s := n.(type) {
			case *ast.IfStmt:
				scope, head = s.Body, s.Cond
			case *ast.RangeStmt:
				scope, head = s.Body, s.X
			default:
				return true
			}
			mentions := false
			ast.Inspect(head, func(m ast.Node) bool {
				if se, isS := m.(*ast.SelectorExpr); isS {
					if f := core.FieldOf(vinfo, se); f != nil && f.Name() == fname && core.RootVar(vinfo, se) == cdParam {
						mentions = true
					}
				}
				return true
			})
			if !mentions {
				return true
			}
			ast.Inspect(scope, func(m ast.Node) bool {
				if r, isR := m.(*ast.ReturnStmt); isR {
					if k, _ := vff.ClassifyReturn(p, r); k == core.RetFailure {
						ok = true
					}
				}
				return true
			})
			return true
		})
		c.Ob("C16-R3", vfd.Name()+"#enforces:"+fname, vfd.Decl.Pos(), ok, "the correction definition's "+fname+" requirement never leads to a refusal")
	}
	// the merge of regime and addon definitions carries every field of both operands
	mfd := p.Func("tax", "CorrectionDefinition", "Merge")
	if mfd == nil {
		c.Ob("C16-R3", "UNRESOLVED:tax.CorrectionDefinition.Merge", token.NoPos, false, "method not found")
		return
	}
	minfo := mfd.Pkg.TypesInfo
	msig := mfd.Obj.Type().(*types.Signature)
	if msig.Params().Len() != 1 {
		c.Undecided("C16-R3", mfd.Name(), mfd.Decl.Pos(), "unexpected signature")
		return
	}
	_, st := core.StructOf(msig.Recv().Type())
	for _, operand := range []*types.Var{msig.Recv(), msig.Params().At(0)} {
		read := map[string]bool{}
		ast.Inspect(mfd.Decl.Body, func(n ast.Node) bool {
			if se, ok := n.(*ast.SelectorExpr); ok {
				if f := core.FieldOf(minfo, se); f != nil && core.VarOf(minfo, se.X) == operand {
					read[f.Name()] = true
				}
			}
			return true
		})
		for i := 0; st != nil && i < st.NumFields(); i++ {
			f := st.Field(i)
			if jn, _ := core.JSONName(st.Tag(i), f.Name()); jn == "" {
				continue
			}
			c.Ob("C16-R3", fmt.Sprintf("%s#reads:%s.%s", mfd.Name(), operand.Name(), f.Name()), mfd.Decl.Pos(), read[f.Name()],
				fmt.Sprintf("the merged correction definition never reads %s.%s: what the regime or an addon requires through it (e.g. a reason) is lost when definitions are combined", operand.Name(), f.Name()))
		}
	}
}

func c16Replicate(c *core.Ctx) {
	p := c.P
	// implementors of schema.Replicable
	repl := p.Pkg("schema").Types.Scope().Lookup("Replicable")
	if repl == nil {
		c.Ob("C16-R4", "UNRESOLVED:schema.Replicable", token.NoPos, false, "interface not found")
		return
	}
	iface := repl.Type().Underlying().(*types.Interface)
	n := 0
	for _, r := range p.RegisteredTypes() {
		if !types.Implements(types.NewPointer(r.Named), iface) || core.TypeName(r.Named) == "schema.Object" {
			continue // the generic wrapper delegates to its payload (checked below)
		}
		n++
		obj, _, _ := types.LookupFieldOrMethod(types.NewPointer(r.Named), true, r.Named.Obj().Pkg(), "Replicate")
		fd := p.DeclOf(asFunc(obj))
		if fd == nil {
			c.Undecided("C16-R4", core.TypeName(r.Named)+"#Replicate", r.Pos, "no body")
			continue
		}
		info := fd.Pkg.TypesInfo
		recv := recvVar(fd)
		got := map[string]string{}
		ast.Inspect(fd.Decl.Body, func(m ast.Node) bool {
			as, ok := m.(*ast.AssignStmt)
			if !ok || len(as.Lhs) != 1 || core.RootVar(info, as.Lhs[0]) != recv {
				return true
			}
			f := core.FieldOf(info, as.Lhs[0])
			if f == nil {
				return true
			}
			r := ast.Unparen(as.Rhs[0])
			switch {
			case core.IsNil(info, r):
				got[f.Name()] = "nil"
			default:
				if s, ok := foldString(info, r); ok && s == "" {
					got[f.Name()] = "empty"
				} else if se, ok := r.(*ast.SelectorExpr); ok && se.Sel.Name == "Empty" {
					got[f.Name()] = "empty"
				} else if call, ok := r.(*ast.CallExpr); ok {
					if fn := core.Callee(info, call); fn != nil && fn.Pkg() != nil && fn.Pkg().Path() == core.ModPath+"/cal" && strings.HasPrefix(fn.Name(), "Today") {
						got[f.Name()] = "today"
					}
				}
			}
			return true
		})
		c.Ob("C16-R4", fd.Name()+"#uuid-cleared", fd.Decl.Pos(), got["UUID"] == "empty", "a replica keeps the source's identifier")
		c.Ob("C16-R4", fd.Name()+"#code-cleared", fd.Decl.Pos(), got["Code"] == "empty", "a replica keeps the source's code")
		c.Ob("C16-R4", fd.Name()+"#issue-date-today", fd.Decl.Pos(), got["IssueDate"] == "today", "a replica does not take today's date")
	}
	if n == 0 {
		c.Ob("C16-R4", "UNRESOLVED:replicable-documents", token.NoPos, false, "no registered document implements schema.Replicable")
	}
	if fd := p.Func("schema", "Object", "Replicate"); fd != nil {
		info := fd.Pkg.TypesInfo
		ok := false
		ff := core.NewFuncFlow(fd)
		for _, call := range core.CallsTo(info, fd.Decl.Body, func(f *types.Func) bool { return f.Name() == "SetUUID" }) {
			newID := false
			if len(call.Args) == 1 {
				if ac, isC := ast.Unparen(call.Args[0]).(*ast.CallExpr); isC {
					if fn := core.Callee(info, ac); fn != nil && fn.Pkg() != nil && fn.Pkg().Path() == core.ModPath+"/uuid" && strings.HasPrefix(fn.Name(), "V") {
						newID = true
					}
				}
			}
			zero := false
			for leaf, val := range ff.Flow.CondsAt(ff.Flow.EnclosingNode(call)) {
				if lc, isC := ast.Unparen(leaf).(*ast.CallExpr); isC && val {
					if fn := core.Callee(info, lc); fn != nil && fn.Name() == "IsZero" {
						zero = true
					}
				}
			}
			if newID && zero {
				ok = true
			}
		}
		c.Ob("C16-R4", fd.Name()+"#new-uuid-when-empty", fd.Decl.Pos(), ok, "Object.Replicate does not assign a newly generated identifier when the payload's is empty")
	} else {
		c.Ob("C16-R4", "UNRESOLVED:schema.Object.Replicate", token.NoPos, false, "method not found")
	}
}

// c16Sharing: the source header reaches the correction through the options'
// Head member (head.WithHead). Reference-typed data below it must not be
// installed anywhere without a copy, and nothing may be unmarshalled into an
// object that already holds such pointers.
func c16Sharing(c *core.Ctx) {
	p := c.P
	n := 0
	for _, fd := range p.Funcs(p.Pkg("bill")) {
		info := fd.Pkg.TypesInfo
		ast.Inspect(fd.Decl.Body, func(m ast.Node) bool {
			se, ok := m.(*ast.SelectorExpr)
			if !ok {
				return true
			}
			// <x>.Head.<F> of reference type, where Head is the option's copy of the source header
			f := core.FieldOf(info, se)
			inner, isSel := ast.Unparen(se.X).(*ast.SelectorExpr)
			if f == nil || !isSel {
				return true
			}
			hf := core.FieldOf(info, inner)
			if hf == nil || hf.Name() != "Head" || core.TypeString(hf.Type()) != "*head.Header" {
				return true
			}
			if !refLike(f.Type()) {
				return true
			}
			// how is it used?
			use := usageOf(fd.Decl.Body, se)
			switch u := use.(type) {
			case *ast.CallExpr:
				if id, isID := u.Fun.(*ast.Ident); isID && id.Name == "len" {
					return true
				}
				if id, isID := u.Fun.(*ast.Ident); isID && id.Name == "append" {
					n++
					c.Ob("C16-R5", fmt.Sprintf("%s#shares:%s", fd.Name(), types.ExprString(se)), se.Pos(), false,
						"pointers into the source envelope's header ("+types.ExprString(se)+") are appended to the correction data without being copied: a later write through them (e.g. unmarshalling option data) changes the source envelope")
					return true
				}
			case *ast.AssignStmt:
				n++
				c.Ob("C16-R5", fmt.Sprintf("%s#shares:%s", fd.Name(), types.ExprString(se)), se.Pos(), false, "reference into the source header is stored elsewhere without a copy")
				return true
			case *ast.RangeStmt:
				// elements must be copied (dereferenced into a local) before use: accept `cp := *s`
				val := core.VarOf(info, u.Value)
				shared := false
				ast.Inspect(u.Body, func(k ast.Node) bool {
					if call, isC := k.(*ast.CallExpr); isC {
						if id, isID := call.Fun.(*ast.Ident); isID && id.Name == "append" {
							for _, a := range call.Args[1:] {
								if core.VarOf(info, a) == val && val != nil {
									shared = true
								}
							}
						}
					}
					return true
				})
				n++
				c.Ob("C16-R5", fmt.Sprintf("%s#copies:%s", fd.Name(), types.ExprString(se)), se.Pos(), !shared, "elements of the source header's list are appended elsewhere without being copied")
			}
			return true
		})
	}
	if n == 0 {
		c.Ob("C16-R5", "bill#no-header-references-escape", token.NoPos, true, "")
	}
}

// usageOf returns the innermost call, assignment or range statement that uses e as an operand.
func usageOf(body ast.Node, e ast.Expr) ast.Node {
	var res ast.Node
	ast.Inspect(body, func(n ast.Node) bool {
		if n == nil || !(n.Pos() <= e.Pos() && e.End() <= n.End()) {
			return n != nil && n.Pos() <= e.Pos()
		}
		switch x := n.(type) {
		case *ast.CallExpr:
			for _, a := range x.Args {
				if a.Pos() <= e.Pos() && e.End() <= a.End() {
					res = x
				}
			}
		case *ast.AssignStmt:
			for _, r := range x.Rhs {
				if ast.Unparen(r) == e {
					res = x
				}
			}
		case *ast.RangeStmt:
			if ast.Unparen(x.X) == e {
				res = x
			}
		}
		return true
	})
	return res
}

// c16HeaderOptionLast — C16-R7: Envelope.Correct hands the source header to
// the document's Correct as the *last* option. Options are applied in order and
// an option may replace the whole option set (bill.WithOptions copies a complete
// struct over it): a header option applied first is wiped, the source's stamps
// are not carried over and a correctly stamped source is refused.
func c16HeaderOptionLast(c *core.Ctx) {
	p := c.P
	c.Rule("C16-R7", "the source header is the last option handed to the document's Correct", 1)
	fd := p.Func("", "Envelope", "Correct")
	if fd == nil {
		c.Ob("C16-R7", "UNRESOLVED:Envelope.Correct", token.NoPos, false, "method not found")
		return
	}
	info := fd.Pkg.TypesInfo
	isWithHead := func(e ast.Expr) bool {
		call, ok := ast.Unparen(e).(*ast.CallExpr)
		if !ok {
			return false
		}
		fn := core.Callee(info, call)
		return fn != nil && fn.Pkg() != nil && fn.Pkg().Path() == core.ModPath+"/head" && fn.Name() == "WithHead"
	}
	n := 0
	ast.Inspect(fd.Decl.Body, func(m ast.Node) bool {
		// any expression that builds an option list containing the header option
		var elems []ast.Expr
		var pos token.Pos
		switch x := m.(type) {
		case *ast.CallExpr:
			if id, ok := ast.Unparen(x.Fun).(*ast.Ident); ok && id.Name == "append" {
				if _, isB := info.Uses[id].(*types.Builtin); isB {
					elems, pos = x.Args, x.Pos()
					if x.Ellipsis.IsValid() && len(elems) > 0 {
						// append(a, b...): b's elements come last
						last := elems[len(elems)-1]
						elems = append(append([]ast.Expr{}, elems[:len(elems)-1]...), &ast.Ellipsis{Elt: last})
					}
				}
			}
		case *ast.CompositeLit:
			elems, pos = x.Elts, x.Pos()
		}
		has := -1
		for i, e := range elems {
			if isWithHead(e) {
				has = i
			}
			// nested: append([]Option{WithHead(..)}, opts...)
			if cl, ok := ast.Unparen(e).(*ast.CompositeLit); ok {
				for _, ce := range cl.Elts {
					if isWithHead(ce) && i < len(elems)-1 {
						has = i
					}
				}
			}
		}
		if has < 0 {
			return true
		}
		n++
		c.Ob("C16-R7", fmt.Sprintf("%s#header-option-last%d", fd.Name(), n), pos, has == len(elems)-1,
			"the header option is not the last of the options handed on: an option applied after it that replaces the option set (bill.WithOptions) wipes the source header, its stamps are not copied and a properly stamped source is refused")
		return false
	})
	if n == 0 {
		c.Ob("C16-R7", fd.Name()+"#header-option-last", fd.Decl.Pos(), false, "NOT FOUND: Envelope.Correct does not add head.WithHead to the options")
	}
}
