package props

import (
	"go/token"
	"go/ast"
	"go/types"

	"goblcheck/core"
)

// fieldEffects holds, per module function, the struct fields it may read and
// may write, directly or through statically resolved module callees
// (flow-insensitive, base-object-insensitive).
type fieldEffects struct {
	p      *core.Program
	reads  map[*types.Func]map[*types.Var]bool
	writes map[*types.Func]map[*types.Var]bool
}

func newFieldEffects(p *core.Program) *fieldEffects {
	fe := &fieldEffects{p: p, reads: map[*types.Func]map[*types.Var]bool{}, writes: map[*types.Func]map[*types.Var]bool{}}
	callees := map[*types.Func][]*types.Func{}
	var order []*types.Func
	// which functions write elements of a map they are given (ext[k] = v, delete(ext, k)),
	// themselves or by handing the parameter on: a caller that passes a member's map has
	// that member written
	mapParam := map[*types.Func]map[int]bool{}
	paramIndex := func(fn *types.Func, v *types.Var) int {
		sig := fn.Type().(*types.Signature)
		for i := 0; i < sig.Params().Len(); i++ {
			if sig.Params().At(i) == v {
				return i
			}
		}
		return -1
	}
	for changed := true; changed; {
		changed = false
		for _, fd := range p.AllFuncs() {
			info := fd.Pkg.TypesInfo
			mark := func(e ast.Expr) {
				v := core.VarOf(info, e)
				if v == nil {
					return
				}
				if _, isMap := v.Type().Underlying().(*types.Map); !isMap {
					return
				}
				if i := paramIndex(fd.Obj, v); i >= 0 {
					if mapParam[fd.Obj] == nil {
						mapParam[fd.Obj] = map[int]bool{}
					}
					if !mapParam[fd.Obj][i] {
						mapParam[fd.Obj][i] = true
						changed = true
					}
				}
			}
			ast.Inspect(fd.Decl.Body, func(n ast.Node) bool {
				switch x := n.(type) {
				case *ast.AssignStmt:
					for _, l := range x.Lhs {
						if ix, ok := ast.Unparen(l).(*ast.IndexExpr); ok {
							mark(ix.X)
						}
					}
				case *ast.CallExpr:
					if id, ok := x.Fun.(*ast.Ident); ok && id.Name == "delete" && len(x.Args) == 2 {
						if _, isB := info.Uses[id].(*types.Builtin); isB {
							mark(x.Args[0])
						}
					}
					if fn := core.Callee(info, x); fn != nil && mapParam[fn.Origin()] != nil {
						for i, a := range x.Args {
							if mapParam[fn.Origin()][i] {
								mark(a)
							}
						}
					}
				}
				return true
			})
		}
	}
	for _, fd := range p.AllFuncs() {
		info := fd.Pkg.TypesInfo
		r, w := map[*types.Var]bool{}, map[*types.Var]bool{}
		lhs := map[ast.Expr]bool{}
		var ld *core.LocalDefs
		// freshLocal: the selector is rooted at a local that only ever holds objects made in
		// this function (&T{…}, new(T)): filling it in changes no object that existed before
		freshLocal := func(sel *ast.SelectorExpr) bool {
			id, ok := ast.Unparen(sel.X).(*ast.Ident)
			if !ok {
				return false
			}
			v, _ := info.Uses[id].(*types.Var)
			if v == nil || v.IsField() || v.Parent() == nil || (v.Pkg() != nil && v.Parent() == v.Pkg().Scope()) {
				return false
			}
			if ld == nil {
				ld = core.NewLocalDefs(info, fd.Decl.Body)
			}
			ds := ld.All(v)
			if len(ds) == 0 {
				return false
			}
			for _, d := range ds {
				if d.RHS == nil || d.N != 1 {
					return false
				}
				e := ast.Unparen(d.RHS)
				if u, ok := e.(*ast.UnaryExpr); ok && u.Op == token.AND {
					if _, isLit := ast.Unparen(u.X).(*ast.CompositeLit); isLit {
						continue
					}
				}
				if call, ok := e.(*ast.CallExpr); ok {
					if fid, ok := call.Fun.(*ast.Ident); ok && fid.Name == "new" {
						continue
					}
				}
				return false
			}
			return true
		}
		// mapAlias: an element store through a local that holds a member's map (ext := a.Ext;
		// ext[k] = v) writes that member
		mapAlias := func(e ast.Expr, w map[*types.Var]bool) {
			id, ok := ast.Unparen(e).(*ast.Ident)
			if !ok {
				return
			}
			v, _ := info.Uses[id].(*types.Var)
			if v == nil || v.IsField() {
				return
			}
			if _, isMap := v.Type().Underlying().(*types.Map); !isMap {
				return
			}
			if ld == nil {
				ld = core.NewLocalDefs(info, fd.Decl.Body)
			}
			for _, d := range ld.All(v) {
				if d.RHS == nil || d.N != 1 {
					continue
				}
				if sel, ok := ast.Unparen(d.RHS).(*ast.SelectorExpr); ok {
					if f := core.FieldOf(info, sel); f != nil && !freshLocal(sel) {
						w[f] = true
					}
				}
			}
		}
		ast.Inspect(fd.Decl.Body, func(n ast.Node) bool {
			switch x := n.(type) {
			case *ast.AssignStmt:
				for _, l := range x.Lhs {
					l = ast.Unparen(l)
					if st, ok := l.(*ast.StarExpr); ok {
						l = ast.Unparen(st.X)
					}
					if ix, ok := l.(*ast.IndexExpr); ok {
						l = ast.Unparen(ix.X)
						mapAlias(l, w)
					}
					if sel, ok := l.(*ast.SelectorExpr); ok {
						if f := core.FieldOf(info, sel); f != nil {
							if !ownValueField(info, sel) && !freshLocal(sel) {
								w[f] = true
							}
							lhs[sel] = true
						}
					}
				}
			case *ast.IncDecStmt:
				if sel, ok := ast.Unparen(x.X).(*ast.SelectorExpr); ok {
					if f := core.FieldOf(info, sel); f != nil && !ownValueField(info, sel) {
						w[f] = true
					}
				}
			case *ast.SelectorExpr:
				if !lhs[x] {
					if f := core.FieldOf(info, x); f != nil {
						r[f] = true
					}
				}
			case *ast.CallExpr:
				if fn := core.Callee(info, x); fn != nil && core.InModule(fn.Pkg()) {
					callees[fd.Obj] = append(callees[fd.Obj], fn)
					for i, a := range x.Args {
						if mapParam[fn.Origin()][i] {
							if sel, ok := ast.Unparen(a).(*ast.SelectorExpr); ok {
								if f := core.FieldOf(info, sel); f != nil && !freshLocal(sel) {
									w[f] = true
								}
							}
						}
					}
				}
				if id, ok := x.Fun.(*ast.Ident); ok && id.Name == "delete" && len(x.Args) == 2 {
					if _, isB := info.Uses[id].(*types.Builtin); isB {
						if sel, ok := ast.Unparen(x.Args[0]).(*ast.SelectorExpr); ok {
							if f := core.FieldOf(info, sel); f != nil && !freshLocal(sel) {
								w[f] = true
							}
						}
						mapAlias(x.Args[0], w)
					}
				}
			}
			return true
		})
		fe.reads[fd.Obj], fe.writes[fd.Obj] = r, w
		order = append(order, fd.Obj)
	}
	for changed := true; changed; {
		changed = false
		for _, fn := range order {
			for _, cal := range callees[fn] {
				for f := range fe.reads[cal] {
					if !fe.reads[fn][f] {
						fe.reads[fn][f] = true
						changed = true
					}
				}
				for f := range fe.writes[cal] {
					if !fe.writes[fn][f] {
						fe.writes[fn][f] = true
						changed = true
					}
				}
			}
		}
	}
	return fe
}

// ownValueField: the selector names a field of a struct held by value in a
// local variable, parameter or value receiver (x.f, x.a.f with no pointer on
// the way): assigning it changes the function's own copy, not a document.
func ownValueField(info *types.Info, sel *ast.SelectorExpr) bool {
	for {
		t := info.TypeOf(sel.X)
		if t == nil {
			return false
		}
		if _, isStruct := t.Underlying().(*types.Struct); !isStruct {
			return false
		}
		switch x := ast.Unparen(sel.X).(type) {
		case *ast.Ident:
			v, _ := info.Uses[x].(*types.Var)
			return v != nil && !v.IsField() && v.Parent() != nil && v.Parent() != v.Pkg().Scope()
		case *ast.SelectorExpr:
			if core.FieldOf(info, x) == nil {
				return false
			}
			sel = x
		default:
			return false
		}
	}
}
