package props

import (
	"fmt"
	"go/ast"
	"go/token"
	"go/types"
	"sort"

	"goblcheck/core"
)

// c11NullItems — C11-R8: the published schemas give every array of objects
// `items: {$ref: …}`, an object; a JSON null entry does not conform. The
// validation library passes over nil elements of a slice of pointers (a nil
// pointer is "empty", its Validate is not called), so a member []*T accepts and
// republishes `[null]` unless its rule list rejects nil elements
// (validation.Each(validation.NotNil | validation.Required …)). The rule counts
// the serialised []*T members of the document types and those whose validator
// lists such a rule; one obligation for the family.
func c11NullItems(c *core.Ctx) {
	p := c.P
	c.Rule("C11-R8", "arrays of objects reject null entries", 1)
	order, _, _ := docClosure(c)
	var members, guarded []string
	for _, n := range order {
		st, ok := n.Underlying().(*types.Struct)
		if !ok {
			continue
		}
		switch core.TypeName(n) {
		case "tax.RegimeDef", "tax.AddonDef", "tax.CatalogueDef", "cbc.Definition":
			continue
		}
		for i := 0; i < st.NumFields(); i++ {
			f := st.Field(i)
			jn, _ := core.JSONName(st.Tag(i), f.Name())
			if jn == "" || !f.Exported() {
				continue
			}
			sl, ok := f.Type().Underlying().(*types.Slice)
			if !ok {
				continue
			}
			pt, ok := sl.Elem().(*types.Pointer)
			if !ok {
				continue
			}
			if en, _ := pt.Elem().(*types.Named); en == nil || !core.InModule(en.Obj().Pkg()) {
				continue
			}
			name := core.TypeName(n) + "." + f.Name()
			members = append(members, name)
			if rejectsNilElements(p, n, f) {
				guarded = append(guarded, name)
			}
		}
	}
	sort.Strings(members)
	sort.Strings(guarded)
	c.Extra("C11-R8_array_of_object_members", len(members))
	c.Extra("C11-R8_members_rejecting_null_entries", guarded)
	if len(members) == 0 {
		c.Ob("C11-R8", "UNRESOLVED:array-members", token.NoPos, false, "no array-of-objects member found")
		return
	}
	c.Ob("C11-R8", "documents#null-array-entries", token.NoPos, len(guarded) == len(members),
		fmt.Sprintf("%d of the %d serialised []*T members of the document types have no rule that rejects nil elements: `\"lines\":[null]` validates and is published as it is, although the published schema requires every entry to be an object", len(members)-len(guarded), len(members)))
}

func rejectsNilElements(p *core.Program, n *types.Named, f *types.Var) bool {
	for _, mname := range []string{"Validate", "ValidateWithContext"} {
		obj, _, _ := types.LookupFieldOrMethod(types.NewPointer(n), true, n.Obj().Pkg(), mname)
		fn, _ := obj.(*types.Func)
		fd := p.DeclOf(fn)
		if fd == nil {
			continue
		}
		info := fd.Pkg.TypesInfo
		for _, sv := range core.StructValidations(info, fd.Decl.Body) {
			for _, fr := range sv.Fields {
				if fr.Field != f {
					continue
				}
				for _, r := range fr.Rules {
					call, ok := ast.Unparen(r).(*ast.CallExpr)
					if !ok {
						continue
					}
					if cf := core.Callee(info, call); cf == nil || cf.Name() != "Each" {
						continue
					}
					for _, a := range call.Args {
						if core.IsValidationVar(info, a, "NotNil") || core.IsValidationVar(info, a, "Required") {
							return true
						}
						if ac, ok := ast.Unparen(a).(*ast.CallExpr); ok {
							if se, ok := ac.Fun.(*ast.SelectorExpr); ok && (core.IsValidationVar(info, se.X, "NotNil") || core.IsValidationVar(info, se.X, "Required")) {
								return true
							}
						}
					}
				}
			}
		}
	}
	return false
}
