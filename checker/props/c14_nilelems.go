package props

import (
	"fmt"
	"go/ast"
	"go/token"
	"go/types"

	"goblcheck/core"
)

// c14NilElems — C14-R9: a function that builds a slice of pointers from
// registry lookups (a map index, or a module function that returns a map index
// or nil) must not store an element that was not found non-nil, when some
// caller ranges over the result and reads a field of the element without a nil
// test. The producer/consumer pair is reported.
func c14NilElems(c *core.Ctx) {
	p := c.P
	c.Rule("C14-R9", "slices of definitions handed to dereferencing loops hold no unchecked lookup results", 1)
	type producer struct {
		fd    *core.FuncDecl
		sites []string // stores of unchecked lookups
		pos   token.Pos
	}
	prods := map[*types.Func]*producer{}
	nProd := 0
	for _, fd := range p.AllFuncs() {
		sig := fd.Obj.Type().(*types.Signature)
		if sig.Results().Len() == 0 {
			continue
		}
		sl, ok := sig.Results().At(0).Type().Underlying().(*types.Slice)
		if !ok {
			continue
		}
		if _, ok := sl.Elem().Underlying().(*types.Pointer); !ok {
			continue
		}
		info := fd.Pkg.TypesInfo
		var ff *core.FuncFlow
		ld := core.NewLocalDefs(info, fd.Decl.Body)
		pr := &producer{fd: fd}
		lookups := 0
		checkStore := func(e ast.Expr, at *ast.AssignStmt) {
			src := ast.Unparen(e)
			var v *types.Var
			if id, ok := src.(*ast.Ident); ok {
				v, _ = info.Uses[id].(*types.Var)
				src = ast.Unparen(ld.Resolve(src, 2))
			}
			if !c14MaybeNilExpr(p, info, fd, src) {
				return
			}
			lookups++
			// guarded by a nil test of the stored variable?
			if v != nil {
				if ff == nil {
					ff = core.NewFuncFlow(fd)
				}
				if node := ff.Flow.EnclosingNode(at); node != nil {
					for l, val := range ff.Flow.CondsAt(node) {
						g := core.GuardOf(info, l, nil)
						if (g.Kind == "nil" || g.Kind == "err") && g.X != nil && core.VarOf(info, g.X) == v && g.Neg == val {
							return
						}
					}
				}
			}
			pr.sites = append(pr.sites, fmt.Sprintf("%s at %s", types.ExprString(src), p.Rel(at.Pos())))
			if !pr.pos.IsValid() {
				pr.pos = at.Pos()
			}
		}
		ast.Inspect(fd.Decl.Body, func(n ast.Node) bool {
			as, ok := n.(*ast.AssignStmt)
			if !ok {
				return true
			}
			for i, l := range as.Lhs {
				if i >= len(as.Rhs) {
					break
				}
				if _, isIx := ast.Unparen(l).(*ast.IndexExpr); isIx {
					if _, isPtr := info.TypeOf(l).Underlying().(*types.Pointer); isPtr {
						checkStore(as.Rhs[i], as)
					}
				}
				if call, ok := ast.Unparen(as.Rhs[i]).(*ast.CallExpr); ok {
					if id, ok := call.Fun.(*ast.Ident); ok && id.Name == "append" && !call.Ellipsis.IsValid() {
						if _, isB := info.Uses[id].(*types.Builtin); isB {
							for _, a := range call.Args[1:] {
								checkStore(a, as)
							}
						}
					}
				}
			}
			return true
		})
		if lookups > 0 {
			nProd++
			prods[fd.Obj] = pr
		}
	}
	c.Extra("definition_list_builders", nProd)
	// consumers
	consumers := map[*types.Func][]string{}
	for _, fd := range p.AllFuncs() {
		info := fd.Pkg.TypesInfo
		var ff *core.FuncFlow
		ld := core.NewLocalDefs(info, fd.Decl.Body)
		ast.Inspect(fd.Decl.Body, func(n ast.Node) bool {
			rs, ok := n.(*ast.RangeStmt)
			if !ok || rs.Value == nil {
				return true
			}
			src := ast.Unparen(ld.Resolve(rs.X, 2))
			call, ok := src.(*ast.CallExpr)
			if !ok {
				return true
			}
			fn := core.Callee(info, call)
			if fn == nil || prods[fn] == nil {
				return true
			}
			ev := core.VarOf(info, rs.Value)
			if ev == nil {
				return true
			}
			ast.Inspect(rs.Body, func(m ast.Node) bool {
				sel, ok := m.(*ast.SelectorExpr)
				if !ok || core.VarOf(info, sel.X) != ev {
					return true
				}
				s := info.Selections[sel]
				if s == nil || s.Kind() != types.FieldVal {
					return true
				}
				if ff == nil {
					ff = core.NewFuncFlow(fd)
				}
				if node := ff.Flow.EnclosingNode(sel); node != nil {
					for l, val := range ff.Flow.CondsAt(node) {
						g := core.GuardOf(info, l, nil)
						if g.Kind == "nil" && g.X != nil && core.VarOf(info, g.X) == ev && g.Neg == val {
							return true
						}
					}
				}
				consumers[fn] = append(consumers[fn], fmt.Sprintf("%s reads %s at %s", fd.Name(), types.ExprString(sel), p.Rel(sel.Pos())))
				return true
			})
			return true
		})
	}
	for fn, pr := range prods {
		bad := len(pr.sites) > 0 && len(consumers[fn]) > 0
		why := ""
		pos := pr.fd.Decl.Pos()
		if bad {
			pos = pr.pos
			why = fmt.Sprintf("stores the unchecked lookup %s; %s without a nil test (%d such reads): an unknown key becomes a nil dereference", pr.sites[0], consumers[fn][0], len(consumers[fn]))
		}
		c.Ob("C14-R9", pr.fd.Name(), pos, !bad, why)
	}
}

// c14MaybeNilExpr: a map index (unless the key ranges over a sibling field of
// the same registry object), or a call of a module function one of whose
// returns is nil or a map index.
func c14MaybeNilExpr(p *core.Program, info *types.Info, fd *core.FuncDecl, e ast.Expr) bool {
	switch x := e.(type) {
	case *ast.IndexExpr:
		if _, isMap := info.TypeOf(x.X).Underlying().(*types.Map); !isMap {
			return false
		}
		// for _, k := range reg.keys { reg.list[k] }: the registry's own key list
		if kv := core.VarOf(info, x.Index); kv != nil {
			same := false
			ast.Inspect(fd.Decl.Body, func(n ast.Node) bool {
				if rs, ok := n.(*ast.RangeStmt); ok && rs.Value != nil && core.VarOf(info, rs.Value) == kv {
					if r1, r2 := core.RootVar(info, rs.X), core.RootVar(info, x.X); r1 != nil && r1 == r2 {
						same = true
					}
				}
				return true
			})
			if same {
				return false
			}
		}
		return true
	case *ast.CallExpr:
		fn := core.Callee(info, x)
		if fn == nil || !core.InModule(fn.Pkg()) {
			return false
		}
		cfd := p.DeclOf(fn)
		if cfd == nil {
			return false
		}
		cinfo := cfd.Pkg.TypesInfo
		sig := fn.Type().(*types.Signature)
		if sig.Results().Len() != 1 {
			return false
		}
		res := false
		ast.Inspect(cfd.Decl.Body, func(n ast.Node) bool {
			if _, ok := n.(*ast.FuncLit); ok {
				return false
			}
			if r, ok := n.(*ast.ReturnStmt); ok && len(r.Results) == 1 {
				re := ast.Unparen(r.Results[0])
				if core.IsNil(cinfo, re) {
					res = true
				}
				if ix, ok := re.(*ast.IndexExpr); ok {
					if _, isMap := cinfo.TypeOf(ix.X).Underlying().(*types.Map); isMap {
						res = true
					}
				}
			}
			return true
		})
		return res
	}
	return false
}
