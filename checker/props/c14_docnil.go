package props

import (
	"fmt"
	"os"
	"go/ast"
	"go/token"
	"go/types"
	"sort"
	"strings"

	"goblcheck/core"
)

// c14DocNilElems — C14-R11: a JSON `null` inside an array of objects leaves a
// nil pointer in the document's slice-of-pointers member ("lines":[null]); the
// validation library passes over nil elements, so nothing rejects it. Every
// element of such a slice — the value variable of a range over it, the slice
// handed to a function and ranged over there, the element handed on as an
// argument or a receiver — must be nil-tested before it is dereferenced
// (field selection, value-receiver method, pointer-receiver method that is not
// nil-receiver-safe). One obligation per function and element variable; the
// report names the first unguarded dereference.
//
// Scope: every package of the module except examples and cmd (the regime and
// addon packages included).
func c14DocNilElems(c *core.Ctx) {
	p := c.P
	c.Rule("C14-R11", "elements of the documents' slices of pointers are nil-tested before they are dereferenced", 20)
	// the document types: the closure of the registered types other than the tax definition
	// tables (regime, addon and catalogue definitions are Go literals of the library or, when
	// parsed, are only validated)
	regs := p.RegisteredTypes()
	var roots []*types.Named
	for _, r := range regs {
		switch core.TypeName(r.Named) {
		case "tax.RegimeDef", "tax.AddonDef", "tax.CatalogueDef":
			continue
		}
		roots = append(roots, r.Named)
	}
	if n := p.Named("", "Envelope"); n != nil {
		roots = append(roots, n)
	}
	order, _ := core.StructClosure(roots, func(from *types.Named, f *types.Var, tag string) bool {
		jn, _ := core.JSONName(tag, f.Name())
		return jn != "" && (f.Exported() || f.Embedded())
	})
	docTypes := map[*types.Named]bool{}
	for _, n := range order {
		// cbc.Definition lists (type, key and code tables) are definitions too
		if core.TypeName(n) == "cbc.Definition" {
			continue
		}
		docTypes[n] = true
	}
	inScope := func(pk *types.Package) bool {
		if pk == nil || !core.InModule(pk) {
			return false
		}
		rel := core.RelPkg(pk.Path())
		return rel != "examples" && !strings.HasPrefix(rel, "cmd/")
	}
	// []*T with T a struct of the document closure
	docElem := func(t types.Type) bool {
		if t == nil {
			return false
		}
		sl, ok := t.Underlying().(*types.Slice)
		if !ok {
			return false
		}
		pt, ok := sl.Elem().(*types.Pointer)
		if !ok {
			return false
		}
		n, _ := pt.Elem().(*types.Named)
		return n != nil && docTypes[n]
	}
	docSliceField := func(f *types.Var, owner *types.Named) bool {
		return f != nil && owner != nil && docTypes[owner] && docElem(f.Type())
	}
	var funcs []*core.FuncDecl
	for _, fd := range p.AllFuncs() {
		if inScope(fd.Obj.Pkg()) && !p.IsTestFile(fd.Decl.Pos()) {
			funcs = append(funcs, fd)
		}
	}
	// slice parameters that receive a document slice at some call site (to a fixpoint)
	sliceParam := map[*types.Var]string{}
	// members of other structs (validation rule objects: `&exchangeRateValidation{rates: rates}`)
	// that are given a document slice
	sliceField := map[*types.Var]string{}
	var isDocSlice func(fd *core.FuncDecl, ld *core.LocalDefs, e ast.Expr, depth int) string
	var returnsDocSlice func(fn *types.Func, depth int) string
	isDocSlice = func(fd *core.FuncDecl, ld *core.LocalDefs, e ast.Expr, depth int) string {
		info := fd.Pkg.TypesInfo
		e = ast.Unparen(e)
		// a validation.By function receives the member as interface{}: whatever list of
		// pointers to module structs it asserts, definitions included, came from parsed data
		if ta, ok := e.(*ast.TypeAssertExpr); ok && ta.Type != nil && depth <= 3 {
			if sl, ok := info.TypeOf(ta.Type).Underlying().(*types.Slice); ok {
				if pt, ok := sl.Elem().(*types.Pointer); ok {
					if n, _ := pt.Elem().(*types.Named); n != nil && n.Obj().Pkg() != nil && core.InModule(n.Obj().Pkg()) {
						return "the list asserted to " + core.TypeString(info.TypeOf(ta.Type))
					}
				}
			}
		}
		if id, ok := e.(*ast.Ident); ok && depth <= 3 {
			// a local defined once: what it was defined from
			if v := core.VarOf(info, id); v != nil {
				if defs := ld.All(v); len(defs) == 1 && defs[0].RHS != nil {
					if _, isAssert := ast.Unparen(defs[0].RHS).(*ast.TypeAssertExpr); isAssert {
						return isDocSlice(fd, ld, defs[0].RHS, depth+1)
					}
				}
			}
		}
		if depth > 3 || !docElem(info.TypeOf(e)) {
			return ""
		}
		switch x := e.(type) {
		case *ast.SelectorExpr:
			if f := core.FieldOf(info, x); f != nil {
				if docSliceField(f, fieldOwner(info, x)) {
					return types.ExprString(x)
				}
				if from, ok := sliceField[f]; ok {
					return from
				}
			}
		case *ast.SliceExpr:
			return isDocSlice(fd, ld, x.X, depth+1)
		case *ast.CallExpr:
			// a getter: a module function or interface method every implementation of which
			// returns a document slice
			if fn := core.Callee(info, x); fn != nil && core.InModule(fn.Pkg()) {
				if from := returnsDocSlice(fn, depth+1); from != "" {
					return from
				}
			}
		case *ast.TypeAssertExpr:
			// a validation.By function receives the member as interface{}
			return "the list asserted to " + core.TypeString(info.TypeOf(x))
		case *ast.Ident:
			v := core.VarOf(info, x)
			if v == nil {
				return ""
			}
			if from, ok := sliceParam[v]; ok {
				return from
			}
			// the receiver of a method of a named list type (tax.Set): the document's list itself
			if _, isNamed := v.Type().(*types.Named); isNamed {
				if _, isParam := paramIndex(fd.Obj, v); isParam {
					return "the " + core.TypeString(v.Type()) + " `" + v.Name() + "` of " + fd.Name()
				}
			}
			defs := ld.All(v)
			if len(defs) == 1 && defs[0].RHS != nil {
				return isDocSlice(fd, ld, defs[0].RHS, depth+1)
			}
		}
		return ""
	}
	getterMemo := map[*types.Func]string{}
	returnsDocSlice = func(fn *types.Func, depth int) string {
		if r, ok := getterMemo[fn]; ok {
			return r
		}
		getterMemo[fn] = ""
		var impls []*core.FuncDecl
		if fd := p.DeclOf(fn); fd != nil {
			impls = append(impls, fd)
		} else if fn.Type().(*types.Signature).Recv() != nil {
			for _, fd := range funcs {
				if fd.Obj.Name() == fn.Name() && fd.Decl.Recv != nil && fd.Obj.Pkg() == fn.Pkg() &&
					types.Identical(stripRecv(fd.Obj.Type().(*types.Signature)), stripRecv(fn.Type().(*types.Signature))) {
					impls = append(impls, fd)
				}
			}
		}
		res := ""
		for _, fd := range impls {
			ld := core.NewLocalDefs(fd.Pkg.TypesInfo, fd.Decl.Body)
			okAll, n := true, 0
			ast.Inspect(fd.Decl.Body, func(m ast.Node) bool {
				if _, isLit := m.(*ast.FuncLit); isLit {
					return false
				}
				if r, isR := m.(*ast.ReturnStmt); isR && len(r.Results) >= 1 {
					if core.IsNil(fd.Pkg.TypesInfo, r.Results[0]) {
						return true
					}
					n++
					if from := isDocSlice(fd, ld, r.Results[0], depth+1); from == "" {
						okAll = false
					} else if res == "" {
						res = from + " (through " + core.FuncName(fd.Obj) + ")"
					}
				}
				return true
			})
			if !okAll || n == 0 {
				res = ""
				break
			}
		}
		getterMemo[fn] = res
		return res
	}
	lds := map[*core.FuncDecl]*core.LocalDefs{}
	ldOf := func(fd *core.FuncDecl) *core.LocalDefs {
		if lds[fd] == nil {
			lds[fd] = core.NewLocalDefs(fd.Pkg.TypesInfo, fd.Decl.Body)
		}
		return lds[fd]
	}
	for changed := true; changed; {
		changed = false
		for _, fd := range funcs {
			info := fd.Pkg.TypesInfo
			ast.Inspect(fd.Decl.Body, func(n ast.Node) bool {
				switch x := n.(type) {
				case *ast.CompositeLit:
					if _, st := core.StructOf(info.TypeOf(x)); st != nil {
						for _, el := range x.Elts {
							kv, ok := el.(*ast.KeyValueExpr)
							if !ok {
								continue
							}
							id, _ := kv.Key.(*ast.Ident)
							if id == nil {
								continue
							}
							f, _ := info.Uses[id].(*types.Var)
							if f == nil || !f.IsField() {
								continue
							}
							if _, done := sliceField[f]; done {
								continue
							}
							if from := isDocSlice(fd, ldOf(fd), kv.Value, 0); from != "" {
								sliceField[f] = from + " (kept in " + core.TypeString(info.TypeOf(x)) + "." + f.Name() + ")"
								changed = true
							}
						}
					}
					return true
				case *ast.AssignStmt:
					if len(x.Lhs) == len(x.Rhs) {
						for i, l := range x.Lhs {
							se, ok := ast.Unparen(l).(*ast.SelectorExpr)
							if !ok {
								continue
							}
							f := core.FieldOf(info, se)
							if f == nil || docSliceField(f, fieldOwner(info, se)) {
								continue
							}
							if _, done := sliceField[f]; done {
								continue
							}
							if from := isDocSlice(fd, ldOf(fd), x.Rhs[i], 0); from != "" {
								sliceField[f] = from + " (kept in the member " + f.Name() + ")"
								changed = true
							}
						}
					}
					return true
				}
				call, ok := n.(*ast.CallExpr)
				if !ok {
					return true
				}
				fn := core.Callee(info, call)
				if fn == nil || !inScope(fn.Pkg()) || p.DeclOf(fn) == nil {
					return true
				}
				sig := fn.Type().(*types.Signature)
				for i, a := range call.Args {
					if i >= sig.Params().Len() || (sig.Variadic() && i >= sig.Params().Len()-1) {
						break
					}
					pv := sig.Params().At(i)
					if _, done := sliceParam[pv]; done {
						continue
					}
					if from := isDocSlice(fd, ldOf(fd), a, 0); from != "" {
						sliceParam[pv] = from + " (handed to " + core.FuncName(fn) + ")"
						changed = true
					}
				}
				return true
			})
		}
	}
	type item struct {
		fd    *core.FuncDecl
		v     *types.Var
		from  string
		depth int
		root  string // file:line of the range statement the element comes from, and its variable
	}
	var work []item
	for _, fd := range funcs {
		info := fd.Pkg.TypesInfo
		ast.Inspect(fd.Decl.Body, func(n ast.Node) bool {
			// v := X[i]
			if as, ok := n.(*ast.AssignStmt); ok && as.Tok == token.DEFINE && len(as.Lhs) == 1 && len(as.Rhs) == 1 {
				if ix, ok := ast.Unparen(as.Rhs[0]).(*ast.IndexExpr); ok {
					if from := isDocSlice(fd, ldOf(fd), ix.X, 0); from != "" {
						if v := core.VarOf(info, as.Lhs[0]); v != nil {
							work = append(work, item{fd, v, "element of " + from, 0, fmt.Sprintf("%s %s", p.Rel(as.Pos()), v.Name())})
						}
					}
				}
				return true
			}
			rs, ok := n.(*ast.RangeStmt)
			if !ok || rs.Value == nil {
				return true
			}
			from := isDocSlice(fd, ldOf(fd), rs.X, 0)
			if from == "" {
				return true
			}
			if v := core.VarOf(info, rs.Value); v != nil {
				work = append(work, item{fd, v, "element of " + from, 0, fmt.Sprintf("%s %s", p.Rel(rs.Pos()), v.Name())})
			}
			return true
		})
	}
	seen := map[*types.Var]bool{}
	type result struct {
		pos token.Pos
		ok  bool
		msg string
	}
	results := map[string]*result{}
	for len(work) > 0 {
		it := work[0]
		work = work[1:]
		if seen[it.v] || it.depth > 4 {
			continue
		}
		seen[it.v] = true
		fd := it.fd
		info := fd.Pkg.TypesInfo
		ff := core.NewFuncFlow(fd)
		litFlows := map[*ast.FuncLit]*core.Flow{}
		nonNil := func(at ast.Node) bool {
			flow := ff.Flow
			// inside a closure: the closure body's own flow (its guards are what protects the use)
			var lit *ast.FuncLit
			ast.Inspect(fd.Decl.Body, func(m ast.Node) bool {
				if fl, ok := m.(*ast.FuncLit); ok && fl.Pos() <= at.Pos() && at.End() <= fl.End() {
					lit = fl // innermost wins (visited last)
				}
				return true
			})
			if lit != nil {
				if litFlows[lit] == nil {
					litFlows[lit] = core.NewFlow(info, lit.Body)
				}
				flow = litFlows[lit]
			}
			guarded := func(flow *core.Flow, at ast.Node) bool {
				node := flow.EnclosingNode(at)
				if node == nil {
					return false
				}
				for l, val := range flow.CondsAt(node) {
					g := core.GuardOf(info, l, ff.Errs)
					if (g.Kind == "nil" || g.Kind == "err") && g.X != nil && core.VarOf(info, g.X) == it.v && val == g.Neg {
						return true
					}
				}
				return false
			}
			if guarded(flow, at) {
				return true
			}
			// a captured variable: what is known where the closure is made still holds inside it
			// (a variable that is assigned again is not followed at all)
			if lit != nil && !(lit.Pos() <= it.v.Pos() && it.v.Pos() <= lit.End()) && guarded(ff.Flow, lit) {
				return true
			}
			return shortCircuitGuard(info, fd.Decl.Body, at, it.v)
		}
		// the variable is re-assigned: what it holds afterwards is not followed
		reassigned := false
		if defs := ldOf(fd).All(it.v); len(defs) > 1 {
			reassigned = true
		}
		bad := ""
		var badPos token.Pos
		ast.Inspect(fd.Decl.Body, func(m ast.Node) bool {
			if reassigned {
				return false
			}
			switch x := m.(type) {
			case *ast.SelectorExpr:
				if core.VarOf(info, x.X) != it.v || bad != "" {
					return true
				}
				sel := info.Selections[x]
				if sel == nil {
					return true
				}
				unsafe := ""
				switch sel.Kind() {
				case types.FieldVal:
					unsafe = "its field " + x.Sel.Name + " is accessed"
				case types.MethodVal:
					if mfn, ok := sel.Obj().(*types.Func); ok {
						recvT := mfn.Type().(*types.Signature).Recv().Type()
						_, ptrRecv := recvT.(*types.Pointer)
						if mfd := p.DeclOf(mfn); mfd != nil && ptrRecv {
							if why := nilSafeReceiverMemo(p, mfd); why != "" {
								unsafe = "its method " + mfn.Name() + " dereferences the receiver (" + why + ")"
							}
						} else if !ptrRecv {
							unsafe = "its value-receiver method " + mfn.Name() + " is called"
						}
					}
				}
				if unsafe != "" && !nonNil(x) {
					bad, badPos = unsafe, x.Pos()
				}
			case *ast.StarExpr:
				if core.VarOf(info, x.X) == it.v && bad == "" && !nonNil(x) {
					if tv, ok := info.Types[x]; ok && tv.IsValue() {
						bad, badPos = "it is dereferenced", x.Pos()
					}
				}
			case *ast.CallExpr:
				// appended to a list of interface values: the nil pointer is wrapped in a non-nil
				// interface, which whoever takes it from the list can no longer test
				if id, ok := ast.Unparen(x.Fun).(*ast.Ident); ok && id.Name == "append" && len(x.Args) >= 2 && bad == "" {
					if _, isB := info.Uses[id].(*types.Builtin); isB {
						if sl, ok := info.TypeOf(x.Args[0]).Underlying().(*types.Slice); ok {
							if _, isIface := sl.Elem().Underlying().(*types.Interface); isIface {
								for _, a := range x.Args[1:] {
									if core.VarOf(info, a) == it.v && !nonNil(x) {
										bad, badPos = "it is appended to a list of "+core.TypeString(sl.Elem())+" values, whose methods are then called on it", x.Pos()
									}
								}
							}
						}
					}
				}
				fn := core.Callee(info, x)
				if fn == nil || !inScope(fn.Pkg()) {
					return true
				}
				cfd := p.DeclOf(fn)
				if cfd == nil {
					return true
				}
				csig := fn.Type().(*types.Signature)
				for i, a := range x.Args {
					if core.VarOf(info, a) == it.v && i < csig.Params().Len() && !nonNil(x) {
						if csig.Variadic() && i >= csig.Params().Len()-1 {
							continue
						}
						work = append(work, item{cfd, csig.Params().At(i), it.from + ", handed to " + cfd.Name(), it.depth + 1, it.root})
					}
				}
			}
			return true
		})
		pos := fd.Decl.Pos()
		if badPos.IsValid() {
			pos = badPos
		}
		key := fmt.Sprintf("%s#%s", fd.Name(), it.v.Name())
		if bad != "" && os.Getenv("GOBLCHECK_R11_ROOTS") != "" {
			fmt.Fprintf(os.Stderr, "R11ROOT %s\n", it.root)
		}
		msg := fmt.Sprintf("`%s` (%s) is nil when the array holds a JSON null, and %s without a nil test: the operation panics instead of returning an error", it.v.Name(), it.from, bad)
		if r, has := results[key]; has {
			if r.ok && bad != "" {
				r.ok, r.msg, r.pos = false, msg, pos
			}
			continue
		}
		results[key] = &result{pos, bad == "", msg}
	}
	// elements used in place: X[i].F, X[i].M() on a document slice
	for _, fd := range funcs {
		info := fd.Pkg.TypesInfo
		var ff *core.FuncFlow
		k := 0
		ast.Inspect(fd.Decl.Body, func(m ast.Node) bool {
			if _, isLit := m.(*ast.FuncLit); isLit {
				return false
			}
			se, ok := m.(*ast.SelectorExpr)
			if !ok {
				return true
			}
			ix, ok := ast.Unparen(se.X).(*ast.IndexExpr)
			if !ok {
				return true
			}
			from := isDocSlice(fd, ldOf(fd), ix.X, 0)
			if from == "" {
				return true
			}
			sel := info.Selections[se]
			if sel == nil {
				return true
			}
			unsafe := ""
			switch sel.Kind() {
			case types.FieldVal:
				unsafe = "its field " + se.Sel.Name + " is accessed"
			case types.MethodVal:
				if mfn, ok := sel.Obj().(*types.Func); ok {
					if mfd := p.DeclOf(mfn); mfd != nil {
						if why := nilSafeReceiverMemo(p, mfd); why != "" {
							unsafe = "method " + mfn.Name() + " dereferences its receiver"
						}
					}
				}
			}
			if unsafe == "" {
				return true
			}
			// an assignment to the element itself (X[i] = …) is not a use of it
			k++
			if ff == nil {
				ff = core.NewFuncFlow(fd)
			}
			path := types.ExprString(ix)
			same := func(e ast.Expr) bool { return types.ExprString(ast.Unparen(e)) == path }
			nilCmp := func(e ast.Expr, op token.Token) bool {
				be, ok := ast.Unparen(e).(*ast.BinaryExpr)
				return ok && be.Op == op && ((same(be.X) && core.IsNil(info, be.Y)) || (same(be.Y) && core.IsNil(info, be.X)))
			}
			freshPtr := func(e ast.Expr) bool {
				e = ast.Unparen(e)
				if u, ok := e.(*ast.UnaryExpr); ok && u.Op == token.AND {
					_, isLit := ast.Unparen(u.X).(*ast.CompositeLit)
					return isLit
				}
				if call, ok := e.(*ast.CallExpr); ok {
					if id, ok := call.Fun.(*ast.Ident); ok && id.Name == "new" {
						return true
					}
				}
				return false
			}
			okHere := false
			node := ff.Flow.EnclosingNode(se)
			if node != nil {
				for leaf, val := range ff.Flow.CondsAt(node) {
					if (nilCmp(leaf, token.NEQ) && val) || (nilCmp(leaf, token.EQL) && !val) {
						okHere = true
					}
				}
				if !okHere {
					est := map[ast.Node]bool{}
					ast.Inspect(fd.Decl.Body, func(q ast.Node) bool {
						switch x := q.(type) {
						case *ast.AssignStmt:
							for i, l := range x.Lhs {
								if same(l) && len(x.Lhs) == len(x.Rhs) && freshPtr(x.Rhs[i]) {
									est[x] = true
								}
							}
						case *ast.IfStmt:
							if x.Else == nil && x.Init == nil && nilCmp(x.Cond, token.EQL) && len(x.Body.List) > 0 {
								if la, ok := x.Body.List[len(x.Body.List)-1].(*ast.AssignStmt); ok && len(la.Lhs) == 1 && same(la.Lhs[0]) && freshPtr(la.Rhs[0]) {
									est[x.Cond] = true
								}
							}
						}
						return true
					})
					if len(est) > 0 && ff.Flow.EveryPathPasses(node, func(nd ast.Node) bool { return est[nd] }) {
						okHere = true
					}
				}
				if !okHere && shortCircuitGuardExpr(info, fd.Decl.Body, se, path) {
					okHere = true
				}
			}
			key := fmt.Sprintf("%s#%s~%d", fd.Name(), path, k)
			results[key] = &result{se.Pos(), okHere, fmt.Sprintf("`%s` (element of %s) is nil when the array holds a JSON null, and %s without a nil test: the operation panics instead of returning an error", path, from, unsafe)}
			return true
		})
	}
	var keys []string
	for k := range results {
		keys = append(keys, k)
	}
	sort.Strings(keys)
	for _, k := range keys {
		r := results[k]
		c.Ob("C14-R11", k, r.pos, r.ok, r.msg)
	}
	if len(keys) == 0 {
		c.Ob("C14-R11", "UNRESOLVED:document-slices", token.NoPos, false, "no range over a slice of pointers of a document type found")
	}
	_ = strings.TrimSpace
}


// shortCircuitGuardExpr: the use stands to the right of `<path> != nil &&` (or
// `<path> == nil ||`) in the same condition.
func shortCircuitGuardExpr(info *types.Info, body ast.Node, use ast.Node, path string) bool {
	found := false
	ast.Inspect(body, func(n ast.Node) bool {
		be, ok := n.(*ast.BinaryExpr)
		if !ok || found {
			return true
		}
		if (be.Op != token.LAND && be.Op != token.LOR) || !(be.Y.Pos() <= use.Pos() && use.End() <= be.Y.End()) {
			return true
		}
		var has func(e ast.Expr) bool
		has = func(e ast.Expr) bool {
			e = ast.Unparen(e)
			if b, ok := e.(*ast.BinaryExpr); ok {
				if b.Op == be.Op {
					return has(b.X) || has(b.Y)
				}
				want := token.NEQ
				if be.Op == token.LOR {
					want = token.EQL
				}
				if b.Op == want {
					if (types.ExprString(ast.Unparen(b.X)) == path && core.IsNil(info, b.Y)) || (types.ExprString(ast.Unparen(b.Y)) == path && core.IsNil(info, b.X)) {
						return true
					}
				}
			}
			return false
		}
		if has(be.X) {
			found = true
		}
		return true
	})
	return found
}
