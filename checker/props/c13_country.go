package props

import (
	"fmt"
	"reflect"
	"go/ast"
	"go/token"
	"go/types"
	"sort"
	"strings"

	"goblcheck/core"
)

// c13CountryGuards — C13-R5: a regime is registered under its country code
// and under every alternative country code of its definition (tax/regimes.go:
// add), so identities of all of them are dispatched to its validator and
// normaliser. A test of the identity's country inside the regime package that
// names the regime's own code ("is this one of mine?") must therefore name the
// alternative codes too: otherwise identities filed under an alternative code
// (XI for the United Kingdom, EL for Greece) skip the check-digit rule or the
// normalisation entirely.
func c13CountryGuards(c *core.Ctx) {
	p := c.P
	c.Rule("C13-R5", "a country test in a regime's identity code covers every code the regime is registered under", 1)
	folder := &core.Folder{P: p}
	nAlt := 0
	for _, pk := range p.Pkgs {
		rel := core.RelPkg(pk.PkgPath)
		if !strings.HasPrefix(rel, "regimes/") || strings.Count(rel, "/") != 1 {
			continue
		}
		country := ""
		var alts []string
		decided := true
		for _, file := range pk.Syntax {
			if p.IsTestFile(file.Pos()) {
				continue
			}
			ast.Inspect(file, func(n ast.Node) bool {
				cl, ok := n.(*ast.CompositeLit)
				if !ok || !litTypeIs(pk.TypesInfo, cl, "tax.RegimeDef") {
					return true
				}
				for _, el := range cl.Elts {
					kv, ok := el.(*ast.KeyValueExpr)
					if !ok {
						continue
					}
					id, _ := kv.Key.(*ast.Ident)
					if id == nil {
						continue
					}
					switch id.Name {
					case "Country":
						if s, ok := folder.Fold(pk, kv.Value).(string); ok {
							country = s
						}
					case "AltCountryCodes":
						list, ok := folder.Fold(pk, kv.Value).([]any)
						if !ok {
							decided = false
							continue
						}
						for _, e := range list {
							if s, ok := e.(string); ok {
								alts = append(alts, s)
							} else {
								decided = false
							}
						}
					}
				}
				return false
			})
		}
		if country == "" {
			continue
		}
		if !decided {
			c.Undecided("C13-R5", rel+"#alt-country-codes", token.NoPos, "the alternative country codes of this regime are not a literal list of constants")
			continue
		}
		sort.Strings(alts)
		if len(alts) > 0 {
			nAlt++
		}
		info := pk.TypesInfo
		isIdentityCountry := func(e ast.Expr) bool {
			e = ast.Unparen(e)
			for i := 0; i < 3; i++ {
				call, ok := e.(*ast.CallExpr)
				if !ok {
					break
				}
				if tv, isT := info.Types[call.Fun]; isT && tv.IsType() && len(call.Args) == 1 {
					e = ast.Unparen(call.Args[0])
					continue
				}
				cs, isSel := ast.Unparen(call.Fun).(*ast.SelectorExpr)
				if !isSel || len(call.Args) != 0 || (cs.Sel.Name != "Code" && cs.Sel.Name != "String") {
					break
				}
				e = ast.Unparen(cs.X)
			}
			se, ok := e.(*ast.SelectorExpr)
			if !ok || se.Sel.Name != "Country" {
				return false
			}
			t := info.TypeOf(se.X)
			if t == nil {
				return false
			}
			if pt, ok := t.Underlying().(*types.Pointer); ok {
				t = pt.Elem()
			}
			return core.TypeString(t) == "tax.Identity"
		}
		for _, file := range pk.Syntax {
			if p.IsTestFile(file.Pos()) {
				continue
			}
			var fn string
			ast.Inspect(file, func(n ast.Node) bool {
				if fd, ok := n.(*ast.FuncDecl); ok {
					fn = fd.Name.Name
				}
				var named []string
				var at token.Pos
				all := true
				switch x := n.(type) {
				case *ast.CallExpr:
					se, ok := ast.Unparen(x.Fun).(*ast.SelectorExpr)
					if !ok || se.Sel.Name != "In" || !isIdentityCountry(se.X) {
						return true
					}
					at = x.Pos()
					for _, a := range x.Args {
						if s, ok := folder.Fold(pk, a).(string); ok {
							named = append(named, s)
						} else {
							all = false
						}
					}
				case *ast.BinaryExpr:
					if x.Op != token.EQL && x.Op != token.NEQ {
						return true
					}
					l, r := x.X, x.Y
					if !isIdentityCountry(l) {
						l, r = r, l
					}
					if !isIdentityCountry(l) {
						return true
					}
					at = x.Pos()
					if s, ok := folder.Fold(pk, r).(string); ok {
						named = append(named, s)
					} else {
						all = false
					}
				default:
					return true
				}
				key := fmt.Sprintf("%s.%s#country-test", rel, fn)
				if !all {
					c.Ob("C13-R5", key, at, true, "")
					return true
				}
				has := map[string]bool{}
				for _, s := range named {
					has[s] = true
				}
				var missing []string
				if has[country] {
					for _, a := range alts {
						if !has[a] {
							missing = append(missing, a)
						}
					}
				}
				c.Ob("C13-R5", key, at, len(missing) == 0,
					fmt.Sprintf("the identity's country is tested against %v, but the regime is also registered under %v: identities filed under those codes reach this function and take the other branch (the check-digit rule or the normalisation is skipped for them)", named, missing))
				return true
			})
		}
	}
	c.Ob("C13-R5", "regimes#with-alternative-codes", token.NoPos, nAlt >= 2, fmt.Sprintf("only %d regime definitions with alternative country codes were found (GB and GR expected)", nAlt))
}

// c13PartiesNormalised — C13-R7: a tax identity is normalised by its party's
// own Normalize (Party.Normalize → TaxID.Normalize → the regime's identity
// normaliser), which runs when the party is handed to tax.Normalize — the
// regime functions alone (normalizers.Each) do not do it. Every *org.Party
// member of a structure that has a Normalize method is therefore handed to
// tax.Normalize (or has its Normalize called) in that method, or the owner has
// no Normalize at all and is itself handed on by its owner; otherwise a valid
// code written with separators, in lower case or with its country prefix is
// left as typed there and rejected by validation, while the same text is
// accepted for the supplier.
func c13PartiesNormalised(c *core.Ctx) {
	p := c.P
	c.Rule("C13-R7", "every party member of a normalised structure goes through its own normalisation", 10)
	n := 0
	for _, pk := range p.Pkgs {
		rel := core.RelPkg(pk.PkgPath)
		if rel != "bill" && rel != "org" && rel != "pay" {
			continue
		}
		sc := pk.Types.Scope()
		for _, nm := range sc.Names() {
			tn, ok := sc.Lookup(nm).(*types.TypeName)
			if !ok {
				continue
			}
			named, ok := tn.Type().(*types.Named)
			if !ok {
				continue
			}
			st, ok := named.Underlying().(*types.Struct)
			if !ok {
				continue
			}
			var parties []*types.Var
			for i := 0; i < st.NumFields(); i++ {
				f := st.Field(i)
				ft := f.Type()
				if sl, ok := ft.(*types.Slice); ok {
					ft = sl.Elem()
				}
				pt, ok := ft.(*types.Pointer)
				if !ok {
					continue
				}
				if core.TypeString(pt.Elem()) == "org.Party" {
					parties = append(parties, f)
					continue
				}
				// a member whose type has its own Normalize(normalizers): it is the way to the parties in it
				if en, ok := pt.Elem().(*types.Named); ok && core.InModule(en.Obj().Pkg()) {
					if m, _, _ := types.LookupFieldOrMethod(pt, true, en.Obj().Pkg(), "Normalize"); m != nil {
						if mf, ok := m.(*types.Func); ok {
							if sig := mf.Type().(*types.Signature); sig.Params().Len() == 1 && core.TypeString(sig.Params().At(0).Type()) == "tax.Normalizers" {
								if tag := reflect.StructTag(st.Tag(i)).Get("json"); tag != "" && tag != "-" && holdsParty(en, 0, map[*types.Named]bool{}) {
									parties = append(parties, f)
								}
							}
						}
					}
				}
			}
			if len(parties) == 0 {
				continue
			}
			fd := p.Func(rel, nm, "Normalize")
			for _, f := range parties {
				n++
				key := fmt.Sprintf("%s.%s.%s#normalised", rel, nm, f.Name())
				if fd == nil {
					c.Ob("C13-R7", key, f.Pos(), false, fmt.Sprintf("%s.%s has no Normalize method: its party %s (and the tax identity in it) is never normalised, so a valid code written with separators, in lower case or with its country prefix is rejected there", rel, nm, f.Name()))
					continue
				}
				info := fd.Pkg.TypesInfo
				found := false
				ast.Inspect(fd.Decl.Body, func(nd ast.Node) bool {
					call, ok := nd.(*ast.CallExpr)
					if !ok {
						return true
					}
					fn := core.Callee(info, call)
					if fn == nil {
						return true
					}
					if core.IsFunc(fn, core.ModPath+"/tax", "", "Normalize") && len(call.Args) == 2 && core.FieldOf(info, call.Args[1]) == f {
						found = true
					}
					if fn.Name() == "Normalize" && core.RecvExpr(call) != nil && core.FieldOf(info, core.RecvExpr(call)) == f {
						found = true
					}
					return true
				})
				c.Ob("C13-R7", key, fd.Decl.Pos(), found, fmt.Sprintf("%s does not hand %s to tax.Normalize (nor call its Normalize): the party's tax identity is never normalised there — running only the regime functions on it does not call Party.Normalize — so a valid code written with separators, in lower case or with its country prefix is rejected for this party while it is accepted for the supplier", fd.Name(), f.Name()))
			}
		}
	}
	c.Ob("C13-R7", "party-members#found", token.NoPos, n >= 10, fmt.Sprintf("only %d party members found", n))
}

// holdsParty: the structure has, directly or in its members, a party or a tax identity.
func holdsParty(n *types.Named, depth int, seen map[*types.Named]bool) bool {
	if depth > 3 || seen[n] {
		return false
	}
	seen[n] = true
	st, ok := n.Underlying().(*types.Struct)
	if !ok {
		return false
	}
	for i := 0; i < st.NumFields(); i++ {
		ft := st.Field(i).Type()
		if sl, ok := ft.(*types.Slice); ok {
			ft = sl.Elem()
		}
		if pt, ok := ft.(*types.Pointer); ok {
			ft = pt.Elem()
		}
		ts := core.TypeString(ft)
		if ts == "org.Party" || ts == "tax.Identity" {
			return true
		}
		if en, ok := ft.(*types.Named); ok && en.Obj().Pkg() != nil && core.InModule(en.Obj().Pkg()) {
			if holdsParty(en, depth+1, seen) {
				return true
			}
		}
	}
	return false
}
