package props

import (
	"fmt"
	"go/ast"
	"go/token"
	"go/types"
	"sort"
	"strings"

	"goblcheck/core"
)

// c13CountryGuards — C13-R5: a regime is registered under its country code
// and under every alternative country code of its definition (tax/regimes.go:
// add), so identities of all of them are dispatched to its validator and
// normaliser. A test of the identity's country inside the regime package that
// names the regime's own code ("is this one of mine?") must therefore name the
// alternative codes too: otherwise identities filed under an alternative code
// (XI for the United Kingdom, EL for Greece) skip the check-digit rule or the
// normalisation entirely.
func c13CountryGuards(c *core.Ctx) {
	p := c.P
	c.Rule("C13-R5", "a country test in a regime's identity code covers every code the regime is registered under", 1)
	folder := &core.Folder{P: p}
	nAlt := 0
	for _, pk := range p.Pkgs {
		rel := core.RelPkg(pk.PkgPath)
		if !strings.HasPrefix(rel, "regimes/") || strings.Count(rel, "/") != 1 {
			continue
		}
		country := ""
		var alts []string
		decided := true
		for _, file := range pk.Syntax {
			if p.IsTestFile(file.Pos()) {
				continue
			}
			ast.Inspect(file, func(n ast.Node) bool {
				cl, ok := n.(*ast.CompositeLit)
				if !ok || !litTypeIs(pk.TypesInfo, cl, "tax.RegimeDef") {
					return true
				}
				for _, el := range cl.Elts {
					kv, ok := el.(*ast.KeyValueExpr)
					if !ok {
						continue
					}
					id, _ := kv.Key.(*ast.Ident)
					if id == nil {
						continue
					}
					switch id.Name {
					case "Country":
						if s, ok := folder.Fold(pk, kv.Value).(string); ok {
							country = s
						}
					case "AltCountryCodes":
						list, ok := folder.Fold(pk, kv.Value).([]any)
						if !ok {
							decided = false
							continue
						}
						for _, e := range list {
							if s, ok := e.(string); ok {
								alts = append(alts, s)
							} else {
								decided = false
							}
						}
					}
				}
				return false
			})
		}
		if country == "" {
			continue
		}
		if !decided {
			c.Undecided("C13-R5", rel+"#alt-country-codes", token.NoPos, "the alternative country codes of this regime are not a literal list of constants")
			continue
		}
		sort.Strings(alts)
		if len(alts) > 0 {
			nAlt++
		}
		info := pk.TypesInfo
		isIdentityCountry := func(e ast.Expr) bool {
			e = ast.Unparen(e)
			for i := 0; i < 3; i++ {
				call, ok := e.(*ast.CallExpr)
				if !ok {
					break
				}
				if tv, isT := info.Types[call.Fun]; isT && tv.IsType() && len(call.Args) == 1 {
					e = ast.Unparen(call.Args[0])
					continue
				}
				cs, isSel := ast.Unparen(call.Fun).(*ast.SelectorExpr)
				if !isSel || len(call.Args) != 0 || (cs.Sel.Name != "Code" && cs.Sel.Name != "String") {
					break
				}
				e = ast.Unparen(cs.X)
			}
			se, ok := e.(*ast.SelectorExpr)
			if !ok || se.Sel.Name != "Country" {
				return false
			}
			t := info.TypeOf(se.X)
			if t == nil {
				return false
			}
			if pt, ok := t.Underlying().(*types.Pointer); ok {
				t = pt.Elem()
			}
			return core.TypeString(t) == "tax.Identity"
		}
		for _, file := range pk.Syntax {
			if p.IsTestFile(file.Pos()) {
				continue
			}
			var fn string
			ast.Inspect(file, func(n ast.Node) bool {
				if fd, ok := n.(*ast.FuncDecl); ok {
					fn = fd.Name.Name
				}
				var named []string
				var at token.Pos
				all := true
				switch x := n.(type) {
				case *ast.CallExpr:
					se, ok := ast.Unparen(x.Fun).(*ast.SelectorExpr)
					if !ok || se.Sel.Name != "In" || !isIdentityCountry(se.X) {
						return true
					}
					at = x.Pos()
					for _, a := range x.Args {
						if s, ok := folder.Fold(pk, a).(string); ok {
							named = append(named, s)
						} else {
							all = false
						}
					}
				case *ast.BinaryExpr:
					if x.Op != token.EQL && x.Op != token.NEQ {
						return true
					}
					l, r := x.X, x.Y
					if !isIdentityCountry(l) {
						l, r = r, l
					}
					if !isIdentityCountry(l) {
						return true
					}
					at = x.Pos()
					if s, ok := folder.Fold(pk, r).(string); ok {
						named = append(named, s)
					} else {
						all = false
					}
				default:
					return true
				}
				key := fmt.Sprintf("%s.%s#country-test", rel, fn)
				if !all {
					c.Ob("C13-R5", key, at, true, "")
					return true
				}
				has := map[string]bool{}
				for _, s := range named {
					has[s] = true
				}
				var missing []string
				if has[country] {
					for _, a := range alts {
						if !has[a] {
							missing = append(missing, a)
						}
					}
				}
				c.Ob("C13-R5", key, at, len(missing) == 0,
					fmt.Sprintf("the identity's country is tested against %v, but the regime is also registered under %v: identities filed under those codes reach this function and take the other branch (the check-digit rule or the normalisation is skipped for them)", named, missing))
				return true
			})
		}
	}
	c.Ob("C13-R5", "regimes#with-alternative-codes", token.NoPos, nAlt >= 2, fmt.Sprintf("only %d regime definitions with alternative country codes were found (GB and GR expected)", nAlt))
}
