package props

import (
	"fmt"
	"go/ast"
	"go/token"
	"go/types"

	"goblcheck/core"
)

// c18Exact — C18-R5: the registry lookups that decide "defined" are exact. The
// key handed to the lookup is used only as a map index, in ==/!= comparisons,
// through identity conversions, or handed unchanged to another module function
// that obeys the same rule. A lookup that derives another key from it (parent
// of a composed key, case folding, prefix) reports values as defined that no
// regime, addon or catalogue lists.
func c18Exact(c *core.Ctx) {
	p := c.P
	c.Rule("C18-R5", "registry lookups deciding `defined` use the given key exactly (index / equality only)", 4)
	targets := []struct{ pkg, recv, name string }{
		{"tax", "", "ExtensionForKey"},
		{"tax", "", "AddonForKey"},
		{"tax", "", "RegimeDefFor"},
		{"currency", "", "Get"},
	}
	for _, t := range targets {
		fd := p.Func(t.pkg, t.recv, t.name)
		if fd == nil {
			c.Ob("C18-R5", "UNRESOLVED:"+t.pkg+"."+t.name, token.NoPos, false, "lookup function not found")
			continue
		}
		sig := fd.Obj.Type().(*types.Signature)
		if sig.Params().Len() != 1 {
			c.Undecided("C18-R5", fd.Name(), fd.Decl.Pos(), "lookup does not take exactly one key")
			continue
		}
		why, pos := exactKeyUse(p, fd, sig.Params().At(0), 0, map[*types.Var]bool{})
		if !pos.IsValid() {
			pos = fd.Decl.Pos()
		}
		c.Ob("C18-R5", fd.Name(), pos, why == "", "the lookup is not exact: "+why)
	}
}

func exactKeyUse(p *core.Program, fd *core.FuncDecl, v *types.Var, depth int, seen map[*types.Var]bool) (string, token.Pos) {
	if seen[v] {
		return "", token.NoPos
	}
	seen[v] = true
	if depth > 5 {
		return "call chain too deep to follow the key", fd.Decl.Pos()
	}
	info := fd.Pkg.TypesInfo
	var stack []ast.Node
	why := ""
	var at token.Pos
	fail := func(pos token.Pos, s string) {
		if why == "" {
			why, at = s, pos
		}
	}
	// judge how the value of expression e (which carries the key) is used by its parent
	var judge func(e ast.Expr, idx int)
	judge = func(e ast.Expr, idx int) {
		if idx < 0 {
			return
		}
		switch par := stack[idx].(type) {
		case *ast.ParenExpr:
			judge(par, idx-1)
		case *ast.IndexExpr:
			if par.Index != e {
				fail(e.Pos(), "the key is indexed into")
			}
		case *ast.BinaryExpr:
			if par.Op != token.EQL && par.Op != token.NEQ {
				fail(par.Pos(), fmt.Sprintf("the key is combined with `%s` at %s", par.Op, p.Rel(par.Pos())))
			}
		case *ast.ReturnStmt, *ast.CaseClause, *ast.SwitchStmt:
		case *ast.SelectorExpr:
			// method on the key
			if par.X != e {
				return
			}
			name := par.Sel.Name
			if idx-1 >= 0 {
				if call, ok := stack[idx-1].(*ast.CallExpr); ok && call.Fun == ast.Expr(par) {
					if name == "String" || name == "Code" {
						judge(call, idx-2)
						return
					}
					fail(par.Pos(), fmt.Sprintf("another key is derived from it with %s() at %s", name, p.Rel(par.Pos())))
					return
				}
			}
			fail(par.Pos(), "a method value of the key is taken")
		case *ast.CallExpr:
			if tv, ok := info.Types[par.Fun]; ok && tv.IsType() {
				judge(par, idx-1) // conversion
				return
			}
			fn := core.Callee(info, par)
			if fn == nil || !core.InModule(fn.Pkg()) {
				fail(par.Pos(), fmt.Sprintf("the key is transformed by %s at %s", types.ExprString(par.Fun), p.Rel(par.Pos())))
				return
			}
			cfd := p.DeclOf(fn)
			if cfd == nil {
				fail(par.Pos(), "callee "+fn.Name()+" has no body to follow")
				return
			}
			csig := fn.Type().(*types.Signature)
			for i, a := range par.Args {
				if a == e && i < csig.Params().Len() {
					if w, ps := exactKeyUse(p, cfd, csig.Params().At(i), depth+1, seen); w != "" {
						fail(ps, w)
					}
				}
			}
		case *ast.AssignStmt:
			for i, r := range par.Rhs {
				if r == e && i < len(par.Lhs) {
					if lv := core.VarOf(info, par.Lhs[i]); lv != nil {
						if w, ps := exactKeyUse(p, fd, lv, depth, seen); w != "" {
							fail(ps, w)
						}
					} else {
						fail(par.Pos(), "the key is stored")
					}
				}
			}
		case *ast.ValueSpec:
			for i, r := range par.Values {
				if r == e && i < len(par.Names) {
					if lv, ok := info.Defs[par.Names[i]].(*types.Var); ok {
						if w, ps := exactKeyUse(p, fd, lv, depth, seen); w != "" {
							fail(ps, w)
						}
					}
				}
			}
		default:
			fail(e.Pos(), fmt.Sprintf("the key is used in a %T at %s", par, p.Rel(e.Pos())))
		}
	}
	ast.Inspect(fd.Decl.Body, func(n ast.Node) bool {
		if n == nil {
			stack = stack[:len(stack)-1]
			return true
		}
		if id, ok := n.(*ast.Ident); ok && info.Uses[id] == v {
			// an assignment *to* the variable from something else derives a new key
			if as, ok := stack[len(stack)-1].(*ast.AssignStmt); ok {
				for i, l := range as.Lhs {
					if l == ast.Expr(id) {
						// rhs must itself be an exact carrier: a plain variable already tracked
						if i < len(as.Rhs) {
							if rv := core.VarOf(info, as.Rhs[i]); rv == nil || !seen[rv] {
								fail(as.Pos(), fmt.Sprintf("the key variable is replaced by `%s` at %s", types.ExprString(as.Rhs[i]), p.Rel(as.Pos())))
							}
						}
						stack = append(stack, n)
						return true
					}
				}
			}
			judge(id, len(stack)-1)
		}
		stack = append(stack, n)
		return true
	})
	return why, at
}

// c18Components — C18-R5 (second clause): the helpers that decide whether a
// composed key (`standard+eqs`) holds a given key compare whole `+` components.
// Key.Has / Key.HasPrefix may compare the components of strings.Split for
// equality, or search the text with both the haystack and the needle delimited
// by the separator on every side the search leaves open; a needle without its
// trailing separator makes `standardized` hold `standard`, and the rate rule
// (InCategoryRates → Key.Has) then accepts unpublished rate keys.
func c18Components(c *core.Ctx) {
	p := c.P
	for _, name := range []string{"Has", "HasPrefix"} {
		fd := p.Func("cbc", "Key", name)
		if fd == nil {
			c.Ob("C18-R5", "UNRESOLVED:cbc.Key."+name, token.NoPos, false, "method not found")
			continue
		}
		info := fd.Pkg.TypesInfo
		ld := core.NewLocalDefs(info, fd.Decl.Body)
		var flat func(e ast.Expr, depth int) []ast.Expr
		flat = func(e ast.Expr, depth int) []ast.Expr {
			e = ast.Unparen(e)
			if be, ok := e.(*ast.BinaryExpr); ok && be.Op == token.ADD {
				return append(flat(be.X, depth), flat(be.Y, depth)...)
			}
			if v := core.VarOf(info, e); v != nil && depth < 4 {
				if ds := ld.All(v); len(ds) == 1 && ds[0].RHS != nil && ds[0].N == 1 {
					return flat(ds[0].RHS, depth+1)
				}
			}
			return []ast.Expr{e}
		}
		isSep := func(e ast.Expr) bool {
			tv, ok := info.Types[e]
			return ok && tv.Value != nil && tv.Value.ExactString() == `"+"`
		}
		why := ""
		var at token.Pos
		ast.Inspect(fd.Decl.Body, func(n ast.Node) bool {
			call, ok := n.(*ast.CallExpr)
			if !ok || why != "" {
				return true
			}
			fn := core.Callee(info, call)
			if fn == nil || fn.Pkg() == nil || fn.Pkg().Path() != "strings" {
				return true
			}
			left := func(e ast.Expr) bool { f := flat(e, 0); return len(f) > 1 && isSep(f[0]) }
			right := func(e ast.Expr) bool { f := flat(e, 0); return len(f) > 1 && isSep(f[len(f)-1]) }
			switch fn.Name() {
			case "Split", "SplitN", "Join":
			case "Contains", "Index", "LastIndex", "Count":
				if len(call.Args) == 2 && !(left(call.Args[0]) && right(call.Args[0]) && left(call.Args[1]) && right(call.Args[1])) {
					why, at = fmt.Sprintf("strings.%s(%s, %s) searches text that is not delimited by the separator on both sides of both operands", fn.Name(), types.ExprString(call.Args[0]), types.ExprString(call.Args[1])), call.Pos()
				}
			case "HasPrefix":
				if len(call.Args) == 2 && !(right(call.Args[0]) && right(call.Args[1])) {
					why, at = fmt.Sprintf("strings.HasPrefix(%s, %s) without the separator closing both operands", types.ExprString(call.Args[0]), types.ExprString(call.Args[1])), call.Pos()
				}
			case "HasSuffix":
				if len(call.Args) == 2 && !(left(call.Args[0]) && left(call.Args[1])) {
					why, at = fmt.Sprintf("strings.HasSuffix(%s, %s) without the separator opening both operands", types.ExprString(call.Args[0]), types.ExprString(call.Args[1])), call.Pos()
				}
			default:
				why, at = "strings."+fn.Name()+" takes part in the match: the comparison is no longer of whole components as written", call.Pos()
			}
			return true
		})
		if !at.IsValid() {
			at = fd.Decl.Pos()
		}
		c.Ob("C18-R5", fd.Name()+"#whole-components", at, why == "", "a composed key is not matched component by component: "+why+" — a component that merely starts or ends with the key counts as the key, so rate keys such as `standardized` pass the category's rate rule although no definition publishes them")
	}
}
