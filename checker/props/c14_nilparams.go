package props

import (
	"fmt"
	"go/ast"
	"go/token"
	"go/types"

	"goblcheck/core"
)

// c14NilPointers — C14-R10: in the root package, a pointer that may be nil
// because it comes from input — an element of a slice-of-pointers member of the
// envelope ("sigs":[null]) or a pointer argument of an exported Envelope method
// — is not dereferenced (field selection, value-receiver method, or a
// pointer-receiver method that is not nil-receiver-safe) unless a nil test of
// that pointer dominates the use. The pointer is followed into the module
// functions it is passed to and the methods it is the receiver of.
func c14NilPointers(c *core.Ctx) {
	p := c.P
	c.Rule("C14-R10", "possibly-nil input pointers (envelope slice elements, API pointer arguments) are nil-tested before dereference", 2)
	env := p.Named("", "Envelope")
	pk := p.Pkg("")
	if env == nil || pk == nil {
		c.Ob("C14-R10", "UNRESOLVED:Envelope", token.NoPos, false, "type not found")
		return
	}
	type item struct {
		fd    *core.FuncDecl
		v     *types.Var
		from  string
		depth int
	}
	var work []item
	seen := map[*types.Var]bool{}
	for _, fd := range p.Funcs(pk) {
		if core.RecvNamed(fd.Obj) != env {
			continue
		}
		info := fd.Pkg.TypesInfo
		recv := recvVar(fd)
		// (a) range over a slice-of-pointers member of the receiver
		ast.Inspect(fd.Decl.Body, func(n ast.Node) bool {
			rs, ok := n.(*ast.RangeStmt)
			if !ok || rs.Value == nil || core.RootVar(info, rs.X) != recv || core.FieldOf(info, rs.X) == nil {
				return true
			}
			if v := core.VarOf(info, rs.Value); v != nil {
				if _, isPtr := v.Type().(*types.Pointer); isPtr {
					work = append(work, item{fd, v, "element of " + types.ExprString(rs.X), 0})
				}
			}
			return true
		})
		// (b) pointer parameters of exported methods
		if fd.Obj.Exported() {
			sig := fd.Obj.Type().(*types.Signature)
			for i := 0; i < sig.Params().Len(); i++ {
				pv := sig.Params().At(i)
				if pt, isPtr := pv.Type().(*types.Pointer); isPtr {
					if n, _ := core.StructOf(pt); n != nil && core.InModule(n.Obj().Pkg()) {
						work = append(work, item{fd, pv, "argument " + pv.Name() + " of the exported " + fd.Name(), 0})
					}
				}
			}
		}
		// (c) the elements of a variadic list of pointers (Verify(keys...): Verify(nil) is a list
		// holding one nil), wherever the list is ranged over — here or in the unexported methods
		// it is handed on to with `keys...`
		{
			sig := fd.Obj.Type().(*types.Signature)
			if sig.Variadic() {
				pv := sig.Params().At(sig.Params().Len() - 1)
				if sl, ok := pv.Type().(*types.Slice); ok {
					if pt, isPtr := sl.Elem().(*types.Pointer); isPtr {
						if n, _ := core.StructOf(pt); n != nil && core.InModule(n.Obj().Pkg()) {
							ast.Inspect(fd.Decl.Body, func(nd ast.Node) bool {
								rs, ok := nd.(*ast.RangeStmt)
								if !ok || rs.Value == nil || core.VarOf(info, rs.X) != pv {
									return true
								}
								if v := core.VarOf(info, rs.Value); v != nil {
									work = append(work, item{fd, v, "element of the variadic argument " + pv.Name() + " of " + fd.Name(), 0})
								}
								return true
							})
						}
					}
				}
			}
		}
	}
	n := 0
	for len(work) > 0 {
		it := work[0]
		work = work[1:]
		if seen[it.v] || it.depth > 5 {
			continue
		}
		seen[it.v] = true
		fd := it.fd
		info := fd.Pkg.TypesInfo
		ff := core.NewFuncFlow(fd)
		nonNil := func(at ast.Node) bool {
			node := ff.Flow.EnclosingNode(at)
			if node == nil {
				return false
			}
			for l, val := range ff.Flow.CondsAt(node) {
				g := core.GuardOf(info, l, ff.Errs)
				if (g.Kind == "nil" || g.Kind == "err") && g.X != nil && core.VarOf(info, g.X) == it.v && val == g.Neg {
					return true
				}
			}
			// `if err := v.Validate(); err != nil { return }`: a method that fails for a nil receiver
			// has vouched for the pointer once its error has been found nil
			found := false
			ast.Inspect(fd.Decl.Body, func(q ast.Node) bool {
				call, ok := q.(*ast.CallExpr)
				if !ok || found {
					return true
				}
				if re := core.RecvExpr(call); re == nil || core.VarOf(info, re) != it.v {
					return true
				}
				mfn := core.Callee(info, call)
				if mfn == nil {
					return true
				}
				if mfd := p.DeclOf(mfn); mfd != nil && rejectsNilReceiver(p, mfd) && ff.ErrNilAt(node, call) == 1 {
					found = true
				}
				return true
			})
			if found {
				return true
			}
			return shortCircuitGuard(info, fd.Decl.Body, at, it.v)
		}
		bad := ""
		var badPos token.Pos
		ast.Inspect(fd.Decl.Body, func(m ast.Node) bool {
			switch x := m.(type) {
			case *ast.SelectorExpr:
				if core.VarOf(info, x.X) != it.v || bad != "" {
					return true
				}
				sel := info.Selections[x]
				if sel == nil {
					return true
				}
				unsafe := ""
				switch sel.Kind() {
				case types.FieldVal:
					unsafe = "field " + x.Sel.Name + " is read"
				case types.MethodVal:
					if mfn, ok := sel.Obj().(*types.Func); ok {
						if mfd := p.DeclOf(mfn); mfd != nil {
							if why := nilSafeReceiverMemo(p, mfd); why != "" {
								unsafe = "method " + mfn.Name() + " dereferences its receiver (" + why + ")"
							} else if rv := recvVar(mfd); rv != nil && !nonNil(x) {
								// the method itself is careful, but it may hand its receiver on: follow it
								if _, isPtr := rv.Type().(*types.Pointer); isPtr {
									work = append(work, item{mfd, rv, it.from + ", receiver of " + mfd.Name(), it.depth + 1})
								}
							}
						} else if _, isPtr := mfn.Type().(*types.Signature).Recv().Type().(*types.Pointer); !isPtr {
							unsafe = "value-receiver method " + mfn.Name() + " is called"
						}
					}
				}
				if unsafe != "" && !nonNil(x) {
					bad, badPos = unsafe, x.Pos()
				}
			case *ast.StarExpr:
				if core.VarOf(info, x.X) == it.v && bad == "" && !nonNil(x) {
					if tv, ok := info.Types[x]; ok && tv.IsValue() {
						bad, badPos = "it is dereferenced", x.Pos()
					}
				}
			case *ast.CallExpr:
				// passed on to a function of the same package
				fn := core.Callee(info, x)
				if fn == nil || !core.InModule(fn.Pkg()) {
					return true
				}
				cfd := p.DeclOf(fn)
				if cfd == nil {
					return true
				}
				csig := fn.Type().(*types.Signature)
				for i, a := range x.Args {
					if core.VarOf(info, a) == it.v && i < csig.Params().Len() && !nonNil(x) {
						pi := i
						if csig.Variadic() && i >= csig.Params().Len()-1 {
							continue
						}
						work = append(work, item{cfd, csig.Params().At(pi), it.from + ", passed to " + cfd.Name(), it.depth + 1})
					}
				}
			}
			return true
		})
		n++
		pos := fd.Decl.Pos()
		if badPos.IsValid() {
			pos = badPos
		}
		c.Ob("C14-R10", fmt.Sprintf("%s#%s", fd.Name(), it.v.Name()), pos, bad == "",
			fmt.Sprintf("`%s` (%s) may be nil — JSON null in the list, or a nil argument — and %s without a nil test: the operation panics instead of returning an error", it.v.Name(), it.from, bad))
	}
	if n == 0 {
		c.Ob("C14-R10", "UNRESOLVED:nullable-pointers", token.NoPos, false, "no envelope slice element or pointer argument found")
	}
}


var rejectsNilMemo = map[*types.Func]int{}

// rejectsNilReceiver: the method returns an error as its last result and every
// return that is not a certain failure lies where the receiver is known not to
// be nil: called on a nil pointer it reports an error.
func rejectsNilReceiver(p *core.Program, mfd *core.FuncDecl) bool {
	if r, ok := rejectsNilMemo[mfd.Obj]; ok {
		return r == 1
	}
	rejectsNilMemo[mfd.Obj] = 2
	recv := recvVar(mfd)
	sig := mfd.Obj.Type().(*types.Signature)
	if recv == nil || sig.Results().Len() == 0 || core.TypeString(sig.Results().At(sig.Results().Len()-1).Type()) != "error" {
		return false
	}
	if _, isPtr := recv.Type().(*types.Pointer); !isPtr {
		return false
	}
	info := mfd.Pkg.TypesInfo
	ff := core.NewFuncFlow(mfd)
	n := 0
	for _, r := range ff.Flow.Returns() {
		if !ff.Flow.Reachable(r) {
			continue
		}
		n++
		if k, _ := ff.ClassifyReturn(p, r); k == core.RetFailure {
			continue
		}
		known := false
		for l, val := range ff.Flow.CondsAt(r) {
			g := core.GuardOf(info, l, ff.Errs)
			if g.Kind == "nil" && g.X != nil && core.VarOf(info, g.X) == recv && val == g.Neg {
				known = true
			}
		}
		if !known {
			return false
		}
	}
	if n == 0 {
		return false
	}
	rejectsNilMemo[mfd.Obj] = 1
	return true
}
