// Command goblcheck decides structural rules for the gobl properties by static
// analysis of /repo's current working tree.
package main

import (
	"flag"
	"fmt"
	"go/printer"
	"go/token"
	"os"
	"path/filepath"
	"sort"
	"strconv"
	"strings"

	"goblcheck/core"
	"goblcheck/props"
)

func main() {
	prop := flag.String("p", "", "property id (C01..C20) or 'all'")
	tier := flag.String("tier", "", "quick|thorough (default from VERIF_TIER or quick)")
	repo := flag.String("repo", "/repo", "subject repository")
	verif := flag.String("verif", "", "verif directory (default: directory above the binary)")
	only := flag.String("only", "", "only report obligations whose rule|key contains this")
	list := flag.Bool("list", false, "list obligations")
	inl := flag.String("inline", "", "debug: print the inlined form of pkg|Recv|Name (e.g. '|Envelope|Digest', 'bill||calculateLine')")
	flag.Parse()
	if *inl != "" {
		prog, err := core.Load(core.LoadOpts{Repo: *repo})
		if err != nil {
			fmt.Fprintln(os.Stderr, err)
			os.Exit(2)
		}
		parts := strings.SplitN(*inl, "|", 3)
		fd := prog.InlinedFunc(parts[0], parts[1], parts[2])
		if fd == nil {
			fmt.Fprintln(os.Stderr, "no such function")
			os.Exit(2)
		}
		_ = printer.Fprint(os.Stdout, token.NewFileSet(), fd.Decl)
		fmt.Println()
		os.Exit(0)
	}
	if *tier == "" {
		*tier = os.Getenv("VERIF_TIER")
	}
	if *tier != "thorough" {
		*tier = "quick"
	}
	if *verif == "" {
		exe, _ := os.Executable()
		*verif = filepath.Dir(filepath.Dir(exe))
		if _, err := os.Stat(filepath.Join(*verif, "properties.jsonl")); err != nil {
			*verif = "/verif"
		}
	}
	seed, _ := strconv.ParseInt(os.Getenv("VERIF_SEED"), 10, 64)
	ids := []string{*prop}
	if *prop == "all" {
		ids = nil
		for id := range props.Registry {
			ids = append(ids, id)
		}
		sort.Strings(ids)
	}
	if *prop == "" {
		fmt.Fprintln(os.Stderr, "usage: goblcheck -p Cnn [-tier quick|thorough]")
		os.Exit(2)
	}
	prog, err := core.Load(core.LoadOpts{Repo: *repo})
	if err != nil {
		// A subject that does not load cannot be decided: fail the check.
		for _, id := range ids {
			fmt.Printf("-: [%s/LOAD] subject does not load or type-check: %v\n", id, err)
			fmt.Printf("VIOLATION property=%s replay=%s\n", id, filepath.Join(*verif, "evidence", id+".violations.json"))
		}
		os.Exit(1)
	}
	rc := 0
	for _, id := range ids {
		fn := props.Registry[strings.ToUpper(id)]
		if fn == nil {
			fmt.Fprintf(os.Stderr, "unknown or unclaimed property %s\n", id)
			os.Exit(2)
		}
		c := props.RunViews(strings.ToUpper(id), *tier, seed, prog, *verif, false)
		c.Only = *only
		if *tier == "thorough" {
			func() {
				defer func() {
					if r := recover(); r != nil {
						c.Ob("PANIC", "checker", 0, false, fmt.Sprintf("analysis panicked: %v", r))
					}
				}()
				c.Reopen()
				c.Rule("CONFIG", "the same rules on further build configurations (js/wasm where there is a wasm entry point, linux/386 for arithmetic and parsing)", 0)
				c.Rule("CONTROL", "positive controls: seeded changes applied in memory must be reported", 0)
				base := map[string]string{}
				for _, o := range c.Obligations() {
					if !o.OK {
						base[o.Rule+"|"+o.Key] = o.Msg
					}
				}
				thorough(c, strings.ToUpper(id), *repo, *verif, base)
			}()
		}
		if *list {
			c.Dump()
		}
		if r := c.Finish(); r > rc {
			rc = r
		}
	}
	os.Exit(rc)
}
