package main

import (
	"encoding/json"
	"os"
	"path/filepath"
	"sort"
	"strings"

	"goblcheck/core"
	"goblcheck/props"
)

type seedMeta struct {
	Seed       string `json:"seed"`
	Property   string `json:"breaks_property"`
	DetectedBy string `json:"detected_by"`
	Status     string `json:"status"`
}

// runOn runs a property's rules on a program and returns the failing,
// not-known obligations keyed by rule|key.
func runOn(id, tier string, prog *core.Program, verif string) (map[string]string, int) {
	sub := props.RunViews(id, tier, 0, prog, verif, true)
	findings, _ := core.LoadFindings(verif)
	known := map[string]bool{}
	for _, f := range findings {
		if f.Property == id && f.Status == "known" {
			known[f.Rule+"|"+f.Key] = true
		}
	}
	out := map[string]string{}
	for _, o := range sub.Obligations() {
		if !o.OK && !known[o.Rule+"|"+o.Key] {
			out[o.Rule+"|"+o.Key] = o.Pos + ": " + o.Msg
		}
	}
	return out, len(sub.Obligations())
}

// thorough adds to ctx: (a) the same rules on the js/wasm build configuration
// for the properties with a wasm entry point; (b) positive controls: every
// seeded change recorded for this property is applied in memory (overlay, no
// file is written) and the rules must report a violation that the unchanged
// tree does not have — a rule that cannot fire proves nothing.
func thorough(c *core.Ctx, id, repo, verif string, baseline map[string]string) {
	// (a) further build configurations: js/wasm where there is a wasm entry point;
	// linux/386 (32-bit int) for the arithmetic and parsing properties
	type cfg struct {
		name string
		env  []string
	}
	var cfgs []cfg
	switch id {
	case "C09", "C15":
		cfgs = []cfg{{"js/wasm", []string{"GOOS=js", "GOARCH=wasm"}}}
	case "C14":
		cfgs = []cfg{{"js/wasm", []string{"GOOS=js", "GOARCH=wasm"}}, {"linux/386", []string{"GOOS=linux", "GOARCH=386"}}}
	case "C05", "C06", "C01":
		cfgs = []cfg{{"linux/386", []string{"GOOS=linux", "GOARCH=386"}}}
	}
	for _, cf := range cfgs {
		prog, err := core.Load(core.LoadOpts{Repo: repo, Env: cf.env})
		if err != nil {
			c.Ob("CONFIG", cf.name+"#loads", 0, false, "the "+cf.name+" build configuration does not load: "+err.Error())
			continue
		}
		fails, n := runOn(id, "thorough", prog, verif)
		c.Config(cf.name)
		c.Extra(strings.ReplaceAll(cf.name, "/", "_")+"_obligations", n)
		var ks []string
		for k := range fails {
			ks = append(ks, k)
		}
		sort.Strings(ks)
		for _, k := range ks {
			if _, inBase := baseline[k]; !inBase {
				c.ObAt("CONFIG", cf.name+":"+k, "-", false, "under "+strings.Join(cf.env, " ")+": "+fails[k])
			}
		}
		c.Ob("CONFIG", cf.name+"#rules-run", 0, n > 0, "no obligations under "+cf.name)
	}
	// (b) positive controls
	dirs, _ := filepath.Glob(filepath.Join(verif, "seeded", "*"))
	sort.Strings(dirs)
	killed, total := 0, 0
	var samples []map[string]string
	for _, d := range dirs {
		b, err := os.ReadFile(filepath.Join(d, "meta.json"))
		if err != nil {
			continue
		}
		var m seedMeta
		if json.Unmarshal(b, &m) != nil {
			continue
		}
		mentions := m.Property == id || strings.Contains(m.DetectedBy, id+"-R")
		if !mentions || m.Status != "" || strings.HasPrefix(m.DetectedBy, "MISSED") {
			continue
		}
		diff, err := os.ReadFile(filepath.Join(d, "patch.diff"))
		if err != nil {
			continue
		}
		total++
		ov, err := core.ApplyUnifiedDiff(repo, string(diff))
		if err != nil {
			c.ObAt("CONTROL", m.Seed+"#applies", "seeded/"+m.Seed+"/patch.diff", false, "positive control does not apply to the current tree: "+err.Error())
			continue
		}
		prog, err := core.Load(core.LoadOpts{Repo: repo, Overlay: ov})
		if err != nil {
			c.ObAt("CONTROL", m.Seed+"#loads", "seeded/"+m.Seed+"/patch.diff", false, "variant does not type-check: "+err.Error())
			continue
		}
		fails, _ := runOn(id, "thorough", prog, verif)
		var fresh []string
		for k := range fails {
			if _, inBase := baseline[k]; !inBase {
				fresh = append(fresh, k)
			}
		}
		sort.Strings(fresh)
		ok := len(fresh) > 0
		if ok {
			killed++
			if len(samples) < 6 {
				samples = append(samples, map[string]string{"control": m.Seed, "reported": fresh[0]})
			}
		}
		c.ObAt("CONTROL", m.Seed, "seeded/"+m.Seed+"/patch.diff", ok,
			"positive control: with this seeded change applied in memory the rules of "+id+" report nothing new — the rule that should catch it is vacuous or has regressed")
	}
	props.SetSubject(c.P)
	c.Extra("positive_controls", total)
	c.Extra("positive_controls_detected", killed)
	if len(samples) > 0 {
		c.Extra("positive_control_samples", samples)
	}
}
